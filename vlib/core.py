"""Shared driver machinery for /verif/bin/check.

Stages (DESIGN.md section 2): S0 gen (translator), S1 harness build + model build,
S2 proof (make Props/<ID>.vo, Print Assumptions, forbidden-token grep),
S3 correspondence (harness -> cases_*.v -> coqc vm_compute), S4 oracle, S5 evidence.
"""
import fcntl, hashlib, json, os, re, shutil, subprocess, sys, time, glob
from concurrent.futures import ThreadPoolExecutor

VERIF = os.path.dirname(os.path.dirname(os.path.abspath(__file__)))
REPO = os.environ.get("VERIF_REPO", "/repo")
CACHE = os.path.join(VERIF, ".cache")
COQ = os.path.join(VERIF, "coq")
HARNESS = os.path.join(VERIF, "harness")
TARGET = os.path.join(CACHE, "target")
GUARD = "walrus_verif"
JOBS = int(os.environ.get("VERIF_JOBS", "16"))

FORBIDDEN = re.compile(r"\b(Admitted|admit|Axiom|Axioms|Parameter|Parameters|Conjecture|Conjectures|Admit Obligations|Unset Guard Checking|bypass_check|Unset Positivity Checking|Unset Universe Checking|type-in-type|impredicative-set)\b")
# axioms of the standard library that a proof may depend on (each is reported in the evidence)
ALLOWED_AXIOMS = {
    "functional_extensionality_dep", "FunctionalExtensionality.functional_extensionality_dep",
    "proof_irrelevance", "ProofIrrelevance.proof_irrelevance", "Eqdep.Eq_rect_eq.eq_rect_eq",
    "JMeq.JMeq_eq", "JMeq_eq", "Classical_Prop.classic", "classic",
}


def log(*a):
    print("[check]", *a, file=sys.stderr, flush=True)


def sh(cmd, timeout=1800, cwd=None, env=None, shell=False):
    e = dict(os.environ)
    e.update({"CARGO_NET_OFFLINE": "true", "CARGO_TARGET_DIR": TARGET})
    if env:
        e.update(env)
    t0 = time.time()
    try:
        p = subprocess.run(cmd, cwd=cwd, env=e, shell=shell, stdout=subprocess.PIPE, stderr=subprocess.STDOUT, timeout=timeout)
        out = p.stdout.decode("utf-8", "replace")
        rc = p.returncode
    except subprocess.TimeoutExpired as ex:
        out = (ex.stdout or b"").decode("utf-8", "replace") + "\n[timeout after %ss]" % timeout
        rc = 124
    return rc, out, time.time() - t0


class Lock:
    def __init__(self, name="build"):
        os.makedirs(CACHE, exist_ok=True)
        self.path = os.path.join(CACHE, name + ".lock")

    def __enter__(self):
        self.f = open(self.path, "w")
        fcntl.flock(self.f, fcntl.LOCK_EX)
        return self

    def __exit__(self, *a):
        fcntl.flock(self.f, fcntl.LOCK_UN)
        self.f.close()


def file_hash(paths):
    h = hashlib.sha256()
    for p in sorted(paths):
        h.update(p.encode())
        try:
            with open(p, "rb") as f:
                h.update(f.read())
        except OSError:
            h.update(b"<missing>")
    return h.hexdigest()


def repo_sources():
    out = []
    for root in ("src", "crates/macro/src"):
        for d, _, fs in os.walk(os.path.join(REPO, root)):
            for f in fs:
                if f.endswith(".rs"):
                    out.append(os.path.join(d, f))
    out += [os.path.join(REPO, "Cargo.toml"), os.path.join(REPO, "Cargo.lock"), os.path.join(REPO, "crates/macro/Cargo.toml")]
    return out


def write_if_changed(path, content):
    try:
        if open(path).read() == content:
            return False
    except OSError:
        pass
    os.makedirs(os.path.dirname(path), exist_ok=True)
    with open(path, "w") as f:
        f.write(content)
    return True


# ---------------------------------------------------------------- S0: translator
def stage_gen():
    """Regenerate coq/Gen/*.v from /repo's current sources. Returns (ok, report)."""
    tr = os.path.join(VERIF, "translator", "gen.py")
    os.makedirs(os.path.join(COQ, "Gen"), exist_ok=True)
    # the operator universe comes from the pinned wasmparser via the harness (for_each_operator!)
    rc, out, _ = sh([vh(), "oplist"], timeout=120)
    if rc != 0:
        return False, {"error": "vh oplist failed: " + out[-500:]}
    write_if_changed(os.path.join(COQ, "Gen", "oplist.json"), out)
    rc, out, dt = sh([sys.executable, tr, "--repo", REPO, "--out", os.path.join(COQ, "Gen")], timeout=300)
    rep = {}
    try:
        rep = json.load(open(os.path.join(COQ, "Gen", "gen_report.json")))
    except Exception:
        pass
    rep["wall_s"] = round(dt, 2)
    if rc != 0:
        rep["error"] = out[-3000:]
    return rc == 0, rep


# ---------------------------------------------------------------- S1: builds
def stage_harness(features=None, target_subdir=None):
    with Lock("cargo"):
        # phase 1 of the translator: the IR printer the harness compiles (from src/ir/mod.rs)
        rc, out, dt = sh([sys.executable, os.path.join(VERIF, "translator", "gen_rust.py"), "--repo", REPO, "--out", os.path.join(HARNESS, "src", "gen_ir_print.rs")], timeout=120)
        if rc != 0:
            return False, "translator (IR printer) refused: " + out[-1500:], dt
        lock_src = os.path.join(REPO, "Cargo.lock")
        lock_dst = os.path.join(HARNESS, "Cargo.lock")
        if not os.path.exists(lock_dst):
            shutil.copy(lock_src, lock_dst)
        cmd = ["cargo", "build", "--offline", "--quiet"]
        env = {"RUSTFLAGS": "--cfg %s -Awarnings" % GUARD}
        if features:
            cmd += ["--features", features]
        if target_subdir:
            env["CARGO_TARGET_DIR"] = os.path.join(CACHE, target_subdir)
        rc, out, dt = sh(cmd, cwd=HARNESS, env=env, timeout=1500)
        if rc != 0 and "Cargo.lock" in out:
            shutil.copy(lock_src, lock_dst)
            rc, out, dt = sh(cmd, cwd=HARNESS, env=env, timeout=1500)
    return rc == 0, out[-4000:], dt


def vh(target_subdir=None):
    return os.path.join(CACHE, target_subdir or "target", "debug", "vh")


def coq_files():
    fs = []
    for sub in ("Gen", "Model", "Proofs", "Props", "Run"):
        fs += sorted(glob.glob(os.path.join(COQ, sub, "*.v")))
    return [os.path.relpath(f, COQ) for f in fs]


def coq_makefile():
    proj = "-Q . WV\n-arg -w -arg -notation-overridden,-deprecated-hint-without-locality,-deprecated-instance-without-locality,-deprecated-syntactic-definition\n" + "\n".join(coq_files()) + "\n"
    changed = write_if_changed(os.path.join(COQ, "_CoqProject"), proj)
    if changed or not os.path.exists(os.path.join(COQ, "Makefile")):
        rc, out, _ = sh(["coq_makefile", "-f", "_CoqProject", "-o", "Makefile"], cwd=COQ)
        if rc != 0:
            raise RuntimeError("coq_makefile failed: " + out)


def coq_make(targets, timeout=1500):
    """Full .vo build of the given targets (relative .vo paths). Returns (ok, output)."""
    with Lock("coq"):
        coq_makefile()
        rc, out, dt = sh(["make", "-j%d" % JOBS, "--no-print-directory"] + targets, cwd=COQ, timeout=timeout)
    return rc == 0, out, dt


# ---------------------------------------------------------------- S2: proof
def coq_deps(vfile):
    """Transitive project-local dependencies of a .v file (relative paths), via coqdep."""
    seen, todo = [], [vfile]
    while todo:
        f = todo.pop()
        if f in seen:
            continue
        seen.append(f)
        rc, out, _ = sh(["coqdep", "-Q", ".", "WV", f], cwd=COQ)
        first = out.split("\n")[0]
        rhs = first.split(":", 1)[1] if ":" in first else ""
        for dep in re.findall(r"(\S+)\.vo\b", rhs):
            v = dep + ".v"
            if os.path.exists(os.path.join(COQ, v)) and v not in seen:
                todo.append(v)
    return seen


def strip_comments(src):
    out, depth, i = [], 0, 0
    while i < len(src):
        if src.startswith("(*", i):
            depth += 1
            i += 2
        elif src.startswith("*)", i) and depth > 0:
            depth -= 1
            i += 2
        else:
            if depth == 0:
                out.append(src[i])
            i += 1
    return "".join(out)


def stage_proof(prop_file):
    """Compile Props/<ID>.v (after its dependencies), parse Print Assumptions, grep forbidden tokens.
    Returns dict(ok, obligations, discharged, theorems, axioms, failures, output)."""
    res = {"ok": False, "obligations": 0, "discharged": 0, "theorems": [], "axioms": [], "failures": [], "checker_cmd": "make -j16 %s (coq_makefile, full .vo) ; coqc -Q . WV %s" % (prop_file.replace(".v", ".vo"), prop_file)}
    src = open(os.path.join(COQ, prop_file)).read()
    code = strip_comments(src)
    theorems = re.findall(r"^\s*(?:Theorem|Corollary)\s+(\w+)", code, re.M)
    res["theorems"] = theorems
    res["obligations"] = len(theorems)
    deps = coq_deps(prop_file)
    res["files"] = deps
    for d in deps:
        c = strip_comments(open(os.path.join(COQ, d)).read())
        m = FORBIDDEN.search(c)
        if m:
            res["failures"].append("forbidden token %r in %s" % (m.group(0), d))
        if re.search(r"^\s*(Variable|Variables|Hypothesis|Hypotheses|Context)\b", re.sub(r"Section\b.*?\bEnd\s+\w+\s*\.", "", c, flags=re.S), re.M):
            res["failures"].append("Variable/Hypothesis outside a section in %s" % d)
    dep_targets = [d.replace(".v", ".vo") for d in deps if d != prop_file]
    ok, out, dt = coq_make(dep_targets)
    res["build_wall_s"] = round(dt, 1)
    if not ok:
        res["failures"].append("dependency build failed")
        res["output"] = out[-6000:]
        m = re.search(r'File "\./([^"]+)", line (\d+)', out)
        if m:
            res["broken_at"] = "%s:%s" % (m.group(1), m.group(2))
        return res
    # always recompile the property file itself so that Print Assumptions output is fresh
    with Lock("coq"):
        rc, out, dt = sh(["coqc", "-Q", ".", "WV", "-w", "-notation-overridden,-deprecated-hint-without-locality,-deprecated-syntactic-definition", prop_file], cwd=COQ, timeout=900)
    res["output"] = out[-6000:]
    if rc != 0:
        res["failures"].append("property file does not compile")
        m = re.search(r'File "\./([^"]+)", line (\d+)', out)
        if m:
            res["broken_at"] = "%s:%s" % (m.group(1), m.group(2))
        return res
    # every theorem must be followed by a Print Assumptions
    printed = re.findall(r"^\s*Print Assumptions\s+(\w+)\s*\.", code, re.M)
    missing = [t for t in theorems if t not in printed]
    if missing:
        res["failures"].append("no Print Assumptions for: " + ", ".join(missing))
    blocks = re.split(r"(?=^(?:Closed under the global context|Axioms:))", out, flags=re.M)
    nblocks, axioms = 0, set()
    for b in blocks:
        if b.startswith("Closed under the global context"):
            nblocks += 1
        elif b.startswith("Axioms:"):
            nblocks += 1
            for ax in re.findall(r"^([A-Za-z_][\w.']*)\s*:", b, re.M):
                if ax != "Axioms":
                    axioms.add(ax)
    res["axioms"] = sorted(axioms)
    bad = [a for a in axioms if a not in ALLOWED_AXIOMS and a.split(".")[-1] not in ALLOWED_AXIOMS]
    if bad:
        res["failures"].append("non-allow-listed axioms: " + ", ".join(bad))
    if nblocks < len(printed):
        res["failures"].append("Print Assumptions produced %d results for %d requests" % (nblocks, len(printed)))
    res["discharged"] = len(theorems) if not res["failures"] else 0
    res["ok"] = not res["failures"]
    return res


def coqchk(prop_file, timeout=1500):
    lib = "WV." + prop_file[:-2].replace("/", ".")
    rc, out, dt = sh(["coqchk", "-silent", "-o", "-Q", ".", "WV", lib], cwd=COQ, timeout=timeout)
    return rc == 0, out[-3000:], dt


# ---------------------------------------------------------------- S3: evaluate cases in Coq
def _coqc_case(path):
    rc, out, dt = sh(["coqc", "-noglob", "-Q", COQ, "WV", os.path.basename(path)], cwd=os.path.dirname(path), timeout=900)
    if rc != 0:
        return path, None, out[-2000:]
    m = re.search(r"=\s*\[(.*?)\]\s*:\s*list", out, re.S)
    nums = [int(x) for x in re.findall(r"\d+", re.sub(r"%N", "", m.group(1)))] if m else ([] if "= []" in out else None)
    if nums is None:
        return path, None, "unparsable coqc output: " + out[-500:]
    return path, nums, None


def coq_eval(case_dir, pattern="cases_*.v"):
    """Run every cases file; returns (results: {file: [codes]}, errors: {file: msg})."""
    files = sorted(glob.glob(os.path.join(case_dir, pattern)), key=lambda p: (len(p), p))
    results, errors = {}, {}
    with ThreadPoolExecutor(max_workers=JOBS) as ex:
        for path, nums, err in ex.map(_coqc_case, files):
            if err is not None:
                errors[path] = err
            else:
                results[path] = nums
    return results, errors


def case_lines(path):
    """The case terms of a cases_*.v file, in order."""
    lines, on = [], False
    for l in open(path):
        if l.startswith("Definition cases"):
            on = True
            continue
        if on:
            if l.startswith("]."):
                break
            lines.append(l.strip().rstrip(";"))
    return lines


# ---------------------------------------------------------------- findings / evidence
def load_known():
    p = os.path.join(VERIF, "known_findings.json")
    try:
        return json.load(open(p)).get("findings", [])
    except OSError:
        return []


def known_for(prop):
    return [f for f in load_known() if f.get("property") == prop and f.get("status") == "known"]


def replay_dir(prop):
    d = os.path.join(VERIF, "evidence", "replays", prop)
    os.makedirs(d, exist_ok=True)
    return d


def write_replay(prop, name, payload):
    p = os.path.join(replay_dir(prop), name)
    with open(p, "w") as f:
        if isinstance(payload, str):
            f.write(payload)
        else:
            json.dump(payload, f, indent=1)
    return p


def write_evidence(prop, tier, seed, coverage, assumptions, wall_s, violations, level="proof"):
    os.makedirs(os.path.join(VERIF, "evidence"), exist_ok=True)
    ev = {"property_id": prop, "tier": tier, "seed": seed, "level": level, "coverage": coverage,
          "assumptions": assumptions, "wall_s": round(wall_s, 2), "violations": violations}
    with open(os.path.join(VERIF, "evidence", prop + ".json"), "w") as f:
        json.dump(ev, f, indent=1)


TRUSTED_BASE = [
    "Coq 8.16.1 kernel (coqc full .vo build via coq_makefile; vm_compute used for finite sweeps and for evaluating the model on harness cases; no native_compute)",
    "translator /verif/translator (Python reader of the Rust subset used by the translated tables) where the property uses Gen/*.v",
    "correspondence harness /verif/harness (generators, wasmparser-only decoder, Coq term printers) and driver /verif/vlib",
    "wasmparser 0.214 / wasm-encoder 0.214 / gimli 0.26 as differential oracles; rustc/std collection semantics",
    "no extraction is used (no Extract directives)",
]


class Ctx:
    def __init__(self, prop, tier, seed):
        self.prop, self.tier, self.seed = prop, tier, seed
        self.t0 = time.time()
        self.work = os.path.join(CACHE, "work", prop if tier == "quick" else prop + "_" + tier)
        shutil.rmtree(self.work, ignore_errors=True)
        os.makedirs(self.work, exist_ok=True)
        self.violations = []   # (kind, text, replay_path)
        self.known_hits = []
        self.notes = []

    def quick(self):
        return self.tier == "quick"


def finish(ctx, proof, coverage_extra, assumptions):
    """Print KNOWN-FINDING / VIOLATION lines, write evidence, return the exit code."""
    cov = {
        "obligations": proof.get("obligations", 0), "discharged": proof.get("discharged", 0),
        "checker_cmd": proof.get("checker_cmd", ""), "trusted_base": TRUSTED_BASE,
        "theorems": proof.get("theorems", []), "axioms_reported_by_Print_Assumptions": proof.get("axioms", []),
        "proof_failures": proof.get("failures", []),
    }
    if "coqchk" in proof:
        cov["coqchk"] = proof["coqchk"]      # thorough tier: the independent checker re-checked the property file and everything it depends on
    cov.update(coverage_extra)
    for k in ctx.known_hits:
        print("KNOWN-FINDING: property=%s %s" % (ctx.prop, k))
    for (text, path) in ctx.violations:
        print("VIOLATION property=%s replay=%s%s" % (ctx.prop, path, (" " + text) if text else ""))
    write_evidence(ctx.prop, ctx.tier, ctx.seed, cov, assumptions, time.time() - ctx.t0, len(ctx.violations))
    return 1 if ctx.violations else 0
