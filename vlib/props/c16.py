"""C16: IR traversals visit everything exactly once, in order, without recursion."""
from .bodycommon import run_body

PROOF = "Props/C16.v"
RUN_FILES = ["Run/BodyRun.v"]
CORR_NAME = "dfs_in_order / dfs_pre_order_mut machines vs. recording visitors on real functions"
ASSUMPTIONS = [
    "Model/Traversal.v is a hand-written explicit-stack model of src/ir/traversals.rs, tied to the code by comparing the complete callback log of recording visitors on every generated function (this run)",
    "per-instruction callback shape (visited fields, skip_visit, default hook bodies) is regenerated from src/ir/mod.rs and crates/macro/src/lib.rs by the translator",
    "'no call-stack growth' is a property of the Rust text: the model is iterative by construction (recursion on fuel only); deep nesting (10^5, thorough 10^6) is exercised on a 256 KiB thread stack for block / loop / if / if-else towers: parse, both traversals with counting visitors, GC, emit",
    "visitors that mutate the tree during dfs_pre_order_mut are outside the model (the recording visitor mutates nothing)",
]


def deep_nesting(thorough):
    """both traversals, the GC pass and emission on bodies nested 10^5 (thorough: 10^6) deep, on a 256 KiB thread stack, each in
    its own process: a stack overflow kills that process only"""
    from .. import core
    ov, runs = [], []
    depth = 1000000 if thorough else 100000
    for kind, instrs, starts in (("block", lambda d: d + 1, lambda d: d + 1), ("loop", lambda d: d + 1, lambda d: d + 1),
                                 ("if", lambda d: 2 * d + 1, lambda d: 2 * d + 1), ("ifelse", lambda d: 3 * d + 3, lambda d: 2 * d + 1)):
        rc, o, dt = core.sh([core.vh(), "deep", str(depth), kind, "256"], timeout=900)
        runs.append({"kind": kind, "depth": depth, "stack_kib": 256, "rc": rc, "wall_s": round(dt, 1), "out": o.strip()[-120:]})
        what = None
        if rc != 0:
            what = "nesting depth %d of `%s`: the process died (rc=%s) on a 256 KiB stack: %s" % (depth, kind, rc, o.strip()[-200:])
        else:
            f = o.strip().split()
            want = ["ok", str(instrs(depth)), str(starts(depth)), str(starts(depth)), "false", str(instrs(depth))]
            if f[:6] != want:
                what = "nesting depth %d of `%s`: visited (instructions, starts, ends, bad nesting, mut instructions) = %s, expected %s" % (depth, kind, f[1:6], want[1:])
        if what:
            ov.append({"class": "deep-nesting", "what": what, "input": {"generator": "vh deep %d %s 256" % (depth, kind)},
                       "replay_cmd": "vh deep <depth> <kind> <stack KiB>  (harness/src/deep.rs): parse, dfs_in_order, dfs_pre_order_mut, gc, emit on a small thread stack"})
    return ov, runs


def correspondence(ctx, thorough, search):
    r = run_body(ctx, thorough, search, "C16", stages={1, 2, 3, 6, 7})
    ov, runs = deep_nesting(thorough)
    r["oracle_violations"] += ov
    r.setdefault("coverage", {})["deep_nesting"] = runs
    return r
