"""C16: IR traversals visit everything exactly once, in order, without recursion."""
from .bodycommon import run_body

PROOF = "Props/C16.v"
RUN_FILES = ["Run/BodyRun.v"]
CORR_NAME = "dfs_in_order / dfs_pre_order_mut machines vs. recording visitors on real functions"
ASSUMPTIONS = [
    "Model/Traversal.v is a hand-written explicit-stack model of src/ir/traversals.rs, tied to the code by comparing the complete callback log of recording visitors on every generated function (this run)",
    "per-instruction callback shape (visited fields, skip_visit, default hook bodies) is regenerated from src/ir/mod.rs and crates/macro/src/lib.rs by the translator",
    "'no call-stack growth' is a property of the Rust text: the model is iterative by construction (recursion on fuel only); deep nesting is exercised by the thorough tier on a small thread stack",
    "visitors that mutate the tree during dfs_pre_order_mut are outside the model (the recording visitor mutates nothing)",
]


def correspondence(ctx, thorough, search):
    return run_body(ctx, thorough, search, "C16", stages={1, 2, 3, 6, 7})
