"""Shared runner for the function-body level harness (`vh body`): the same generated modules
serve C03 (structure), C15, C16, C02, C05 ...; each property keeps the oracle classes that
concern it and the stages of Run/BodyRun.check_body that concern it."""
import json, os
from .. import core

STAGE = {1: "parse_body vs. IR read through the public API", 2: "dfs_in_order callback log", 3: "dfs_pre_order_mut callback log",
         4: "emit_locals declaration", 6: "dfs_in_order callback log with overridden per-variant hooks", 7: "dfs_pre_order_mut callback log with overridden per-variant hooks", 5: "emitted operator stream", 11: "parse_body model panics / out of fuel",
         12: "dfs_in_order model fails", 13: "dfs_pre_order_mut model fails", 15: "emit_body model fails"}


def run_body(ctx, thorough, search, prop, stages, n_quick=60, n_thorough=1500):
    out = os.path.join(ctx.work, "search" if search else "corr")
    n = n_thorough if thorough else n_quick
    rc, o, dt = core.sh([core.vh(), "body", out, str(ctx.seed + (777 if search else 0)), str(n), "thorough" if thorough else "quick"], timeout=3000)
    if rc != 0:
        return {"disagreements": [{"error": "harness failed", "out": o[-800:]}], "oracle_violations": [], "coverage": {}}
    meta = json.load(open(os.path.join(out, "meta.json")))
    results, errors = core.coq_eval(out)
    dis = [{"file": f, "coq_error": msg[-400:]} for f, msg in errors.items()]
    n_eval = 0
    for f, codes in results.items():
        lines = core.case_lines(f)
        n_eval += len(codes)
        if len(codes) != len(lines):
            dis.append({"file": f, "error": "result count %d != case count %d" % (len(codes), len(lines))})
            continue
        for c, l in zip(codes, lines):
            if c != 0 and (c in stages or c >= 10):
                dis.append({"stage": c, "stage_name": STAGE.get(c, "?"), "case": l[:600]})
    ov = []
    for v in meta.get("oracle_violations", []):
        if prop in v.get("props", "").split():
            ov.append({"class": v["class"], "what": v["what"], "input": {"module_hex": v.get("input")}, "observed": v.get("observed"), "expected": v.get("expected"),
                       "replay_cmd": "walrus::Module::from_buffer(<module_hex>), then the operation named in `what`"})
    cov = {
        "evaluations": meta["cases"], "distinct_nontrivial": meta["cases"],
        "rule": "structure-aware generator on wasm-encoder: universe-compatible modules (3 tables, 3 memories incl. 64-bit and shared, globals, passive+active segments, names, customs, start) whose function bodies are built from a validator-discovered signature table of %d operator instances, nested block/loop/if with all block-type forms, br/br_if/br_table/return/return_call, dead code after transfers (incl. dead nested constructs), nops; kept when the reference validator accepts; one case per distinct function body" % meta["op_table_instances"],
        "samples": meta["samples"], "traces_validated_against_impl": n_eval,
        "input_distribution": {k: meta[k] for k in ("modules_generated", "modules_invalid_discarded", "functions", "input_operators", "dead_operators_generated", "nested_constructs", "max_nesting_depth", "distinct_operator_names_used", "top_operators")},
        "exhaustive": False,
    }
    return {"disagreements": dis, "oracle_violations": ov, "coverage": cov}
