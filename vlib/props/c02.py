"""C02 (module-level): see Props/C02.v and DESIGN.md section 5."""
import json, os, shutil
from .. import core
from .modcommon import run_mod

PROOF = "Props/C02.v"
RUN_FILES = ["Run/ModuleRun.v", "Run/BuilderRun.v", "Run/CodeMapRun.v", "Run/DwarfRun.v", "Run/TypeCoreRun.v"]
CORR_NAME = "parseM / gc / emitM models vs. real parse, gc, emit_wasm on fixtures and generated modules"
ASSUMPTIONS = [
    "Model/ParseM.v, EmitM.v, GC.v are hand-written executable models of src/module/*.rs and src/passes/*.rs; attribute plumbing (Gen/Attrs.v), operator tables and visited-reference tables (Gen/Ops.v) are regenerated from the source; the models are tied to the code by replaying every (module, configuration) case on them and comparing the emitted section stream (this run)",
    "wasm-encoder's byte encoding of an abstract section and wasmparser's decoding are trusted and used as the differential oracle",
    "validation of the input is wasmparser's and is a premise of the theorems",
    "Model/TypeCore.v is a hand-written validator for the 98 core operators (standard algorithm); it is tied to wasmparser's verdict on generated valid and type-broken bodies by this run and proved equivalent to the declarative typing of Model/Typing.v",
]


def validator_run(ctx, thorough, search):
    """the core validator of Model/TypeCore.v vs. wasmparser's verdict on generated bodies, one third of them with ONE deliberate type error"""
    out = os.path.join(ctx.work, ("search" if search else "corr") + "_validator")
    shutil.rmtree(out, ignore_errors=True)
    rc, o, dt = core.sh([core.vh(), "c01core", out, str(ctx.seed + (91 if search else 0)), str(2500 if thorough else 240), "ext", "sabotage"], timeout=1200)
    if rc != 0:
        return [{"error": "generator failed", "out": o[-600:]}], {}
    idx = json.load(open(os.path.join(out, "index.json")))
    lines, kinds, nvalid = [], {}, 0
    for c in idx["cases"]:
        nvalid += bool(c["valid"])
        if c["sabotage"]:
            kinds[c["sabotage"]] = kinds.get(c["sabotage"], 0) + 1
        env = "{| te_locals := [%s]; te_globals := [(VT_I32, true); (VT_I64, true); (VT_I32, false)]; te_tys := %s; te_results := [%s]; te_has_mem := %s |}" % (
            "; ".join(c["locals"]), c["tys"], "; ".join(c["results"]), "true" if c["has_mem"] else "false")
        lines.append("{| tc_env := %s; tc_body := %s; tc_verdict := %s |}" % (env, c["body"], "true" if c["valid"] else "false"))
    head = "From Coq Require Import List NArith ZArith String. Import ListNotations.\nFrom WV Require Import Gen.Ops Model.Common Model.IR Model.ParseSpec Model.TypeCore Run.TypeCoreRun.\nOpen Scope N_scope.\nDefinition cases : list tcase := [\n"
    per = 60
    for k in range(0, len(lines), per):
        with open(os.path.join(out, "cases_tc_%d.v" % (k // per)), "w") as f:
            f.write(head + ";\n".join("  " + l for l in lines[k:k + per]) + "\n].\nEval vm_compute in (List.map check_tcase_nf cases).\n")
    results, errors = core.coq_eval(out, "cases_tc_*.v")
    dis = [{"file": f, "coq_error": m[-400:]} for f, m in errors.items()]
    names = {61: "wasmparser accepts, the model validator rejects", 62: "wasmparser rejects, the model validator accepts", 63: "the model validator accepts a body but rejects its normal form"}
    n = 0
    for f, codes in results.items():
        n += len(codes)
        for i, cd in enumerate(codes):
            if cd != 0:
                dis.append({"code": cd, "meaning": names.get(cd, "?"), "file": os.path.basename(f), "case_index": i})
    cov = {"bodies": len(lines), "valid_per_wasmparser": nvalid, "invalid_per_wasmparser": len(lines) - nvalid, "deliberate_type_errors": kinds, "evaluated_in_coq": n,
           "rule": "generated bodies over the 98 core operators (blocks, loops, ifs, branches with surplus values, br_table, dead code that takes operands from the polymorphic stack, memory operators); about a third carry ONE deliberate type error (wrong operand type, missing operand, value of the wrong type at a branch, else-less if with a result, local index out of range, global.set of an immutable global, over-aligned load); wasmparser's verdict on the module vs. check_body; for accepted bodies also check_body of the normal form"}
    return dis, cov


def correspondence(ctx, thorough, search):
    """no pass / GC: the module-level run; builder-made functions: the C15 run; edit API: the C18 run; emission with
    code-transform preservation (unchanged, GC, inserted instructions): the C11 run; emission with DWARF generation on well-formed
    debug sections (unchanged, GC, inserted instructions): the C10 run.  From each, the model
    disagreements and the oracle classes tagged C02 (panic, undecodable or invalid output)."""
    from . import c15, c18, c11, c10
    r = run_mod(ctx, thorough, search, "C02")
    parts = {"module": r["coverage"]}
    for name, mod in (("builder", c15), ("edits", c18), ("code_transform", c11), ("dwarf", c10)):
        x = mod.correspondence(ctx, thorough, search, prop="C02", sub="_" + name)
        r["disagreements"] += [dict(d, harness=name) for d in x["disagreements"]]
        r["oracle_violations"] += x["oracle_violations"]
        parts[name] = x["coverage"]
    cov = dict(parts["module"])
    cov["evaluations"] = sum(p.get("evaluations", 0) for p in parts.values())
    cov["distinct_nontrivial"] = cov["evaluations"]
    cov["traces_validated_against_impl"] = sum(p.get("traces_validated_against_impl", 0) for p in parts.values())
    cov["input_distribution"] = {k: p.get("input_distribution") for k, p in parts.items()}
    cov["rule"] = " || ".join("%s: %s" % (k, p.get("rule", "")) for k, p in parts.items())
    d2, c2 = validator_run(ctx, thorough, search)
    r["disagreements"] += [dict(d, harness="validator") for d in d2]
    cov["core_validator_vs_wasmparser"] = c2
    cov["traces_validated_against_impl"] += c2.get("evaluated_in_coq", 0)
    r["coverage"] = cov
    return r
