"""C02 (module-level): see Props/C02.v and DESIGN.md section 5."""
from .modcommon import run_mod

PROOF = "Props/C02.v"
RUN_FILES = ["Run/ModuleRun.v", "Run/BuilderRun.v", "Run/CodeMapRun.v", "Run/DwarfRun.v"]
CORR_NAME = "parseM / gc / emitM models vs. real parse, gc, emit_wasm on fixtures and generated modules"
ASSUMPTIONS = [
    "Model/ParseM.v, EmitM.v, GC.v are hand-written executable models of src/module/*.rs and src/passes/*.rs; attribute plumbing (Gen/Attrs.v), operator tables and visited-reference tables (Gen/Ops.v) are regenerated from the source; the models are tied to the code by replaying every (module, configuration) case on them and comparing the emitted section stream (this run)",
    "wasm-encoder's byte encoding of an abstract section and wasmparser's decoding are trusted and used as the differential oracle",
    "validation of the input is wasmparser's and is a premise of the theorems",
]


def correspondence(ctx, thorough, search):
    """no pass / GC: the module-level run; builder-made functions: the C15 run; edit API: the C18 run; emission with
    code-transform preservation (unchanged, GC, inserted instructions): the C11 run; emission with DWARF generation on well-formed
    debug sections (unchanged, GC, inserted instructions): the C10 run.  From each, the model
    disagreements and the oracle classes tagged C02 (panic, undecodable or invalid output)."""
    from . import c15, c18, c11, c10
    r = run_mod(ctx, thorough, search, "C02")
    parts = {"module": r["coverage"]}
    for name, mod in (("builder", c15), ("edits", c18), ("code_transform", c11), ("dwarf", c10)):
        x = mod.correspondence(ctx, thorough, search, prop="C02", sub="_" + name)
        r["disagreements"] += [dict(d, harness=name) for d in x["disagreements"]]
        r["oracle_violations"] += x["oracle_violations"]
        parts[name] = x["coverage"]
    cov = dict(parts["module"])
    cov["evaluations"] = sum(p.get("evaluations", 0) for p in parts.values())
    cov["distinct_nontrivial"] = cov["evaluations"]
    cov["traces_validated_against_impl"] = sum(p.get("traces_validated_against_impl", 0) for p in parts.values())
    cov["input_distribution"] = {k: p.get("input_distribution") for k, p in parts.items()}
    cov["rule"] = " || ".join("%s: %s" % (k, p.get("rule", "")) for k, p in parts.items())
    r["coverage"] = cov
    return r
