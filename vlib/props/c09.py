"""C09: parallel and serial builds agree under every schedule."""
import json, os, shutil
from .. import core

PROOF = "Props/C09.v"
RUN_FILES = []
CORR_NAME = "the harness built with --features parallel vs. the serial build: byte-identical outputs and identical verdicts under RAYON_NUM_THREADS variations"
ASSUMPTIONS = [
    "Gen/ParSites.v is regenerated from every maybe_parallel! site; the theorems are about an abstract schedule (evaluation order) of side-effect-free closures",
    "absence of shared mutable state in the closures is Rust's type system; real schedules are rayon's, observed under 5 thread counts x repeated runs, not enumerated",
    "both builds are made from /repo's working tree by this run (separate cargo target directories)",
]


def correspondence(ctx, thorough, search):
    out = os.path.join(ctx.work, "search" if search else "corr")
    shutil.rmtree(out, ignore_errors=True); os.makedirs(out)
    ok, o, dt = core.stage_harness(features="parallel", target_subdir="target_par")
    if not ok:
        return {"disagreements": [{"error": "parallel build of the harness failed", "out": o[-800:]}], "oracle_violations": [], "coverage": {}}
    n = 150 if thorough else 12
    inp = os.path.join(out, "inputs")
    rc, o, dt = core.sh([core.vh(), "c09gen", inp, str(ctx.seed + (909 if search else 0)), str(n)], timeout=1200)
    if rc != 0:
        return {"disagreements": [{"error": "input generation failed", "out": o[-800:]}], "oracle_violations": [], "coverage": {}}
    names = dict(l.split(" ", 1) for l in open(os.path.join(inp, "index.txt")).read().splitlines())
    serial = os.path.join(out, "serial.txt")
    rc, o, dt = core.sh([core.vh(), "c09run", inp, serial], timeout=2400)
    if rc != 0:
        return {"disagreements": [{"error": "serial run failed", "out": o[-800:]}], "oracle_violations": [], "coverage": {}}
    ref = open(serial).read().splitlines()
    threads = [1, 2, 3, 7, 16]
    repeats = 6 if thorough else 2
    ov, runs = [], 0
    for t in threads:
        for rep in range(repeats):
            f = os.path.join(out, "par_%d_%d.txt" % (t, rep))
            rc, o, dt = core.sh([core.vh("target_par"), "c09run", inp, f], env={"RAYON_NUM_THREADS": str(t)}, timeout=2400)
            runs += 1
            if rc != 0:
                ov.append({"class": "parallel-build-crashes", "what": "the parallel build died (rc=%s) with RAYON_NUM_THREADS=%d: %s" % (rc, t, o[-300:]), "input": None}); continue
            got = open(f).read().splitlines()
            for a, b in zip(ref, got):
                if a != b:
                    iid, variant = a.split(" ")[:2]
                    wasm = open(os.path.join(inp, iid + ".wasm"), "rb").read().hex()
                    kind = "parallel-serial-verdict-differs" if a.split(" ")[2] != b.split(" ")[2] else ("parallel-serial-error-differs" if a.split(" ")[2] == "err" else "parallel-serial-bytes-differ")
                    ov.append({"class": kind, "what": "%s (variant %s: 0 emit, 1 gc+emit, 2 emit with code-transform, 3 one located instruction duplicated into every function + a custom section dumping the code transform, 4 emit with synthetic names for anonymous items), RAYON_NUM_THREADS=%d run %d: serial `%s` vs parallel `%s`" % (names.get(iid, iid), variant, t, rep, a[:160], b[:160]),
                               "input": {"module_hex": wasm, "threads": t}, "replay_cmd": "parse (+gc) + emit_wasm with walrus built with and without --features parallel, RAYON_NUM_THREADS=<threads>"})
                    break
            if len(got) != len(ref):
                ov.append({"class": "parallel-serial-verdict-differs", "what": "number of result lines differs", "input": None})
    verdicts = {}
    for l in ref:
        v = l.split(" ")[2]; verdicts[v] = verdicts.get(v, 0) + 1
    cov = {"evaluations": len(ref) * runs, "distinct_nontrivial": len(ref), "traces_validated_against_impl": len(ref) * runs,
           "rule": "all fixtures + modules with 400/400/64/1000 functions of equal and unequal size (ties in the size sort) + 200-function modules with invalid bodies at several positions + generated body-rich and attribute modules (some invalid); each parsed and emitted three ways (emit, gc+emit, emit with code-transform preservation) by the serial build once and by the parallel build under RAYON_NUM_THREADS in {1,2,3,7,16} x repeats; verdict, error text, length and hash of the output compared line by line",
           "input_distribution": {"inputs": len(names), "lines_per_run": len(ref), "parallel_runs": runs, "threads": threads, "repeats": repeats, "serial_verdicts": verdicts},
           "exhaustive": False}
    return {"disagreements": [], "oracle_violations": ov, "coverage": cov}
