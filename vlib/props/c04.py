"""C04 (module-level): see Props/C04.v and DESIGN.md section 5."""
from .modcommon import run_mod

PROOF = "Props/C04.v"
RUN_FILES = ["Run/ModuleRun.v", "Run/ModBytesRun.v"]
CORR_NAME = "parseM / gc / emitM models vs. real parse, gc, emit_wasm on fixtures and generated modules"
ASSUMPTIONS = [
    "Model/ParseM.v, EmitM.v, GC.v are hand-written executable models of src/module/*.rs and src/passes/*.rs; attribute plumbing (Gen/Attrs.v), operator tables and visited-reference tables (Gen/Ops.v) are regenerated from the source; the models are tied to the code by replaying every (module, configuration) case on them and comparing the emitted section stream (this run)",
    "wasm-encoder's byte encoding of an abstract section and wasmparser's decoding are trusted and used as the differential oracle",
    "validation of the input is wasmparser's and is a premise of the theorems",
]


def correspondence(ctx, thorough, search):
    r = run_mod(ctx, thorough, search, "C04")
    # the step from BYTES to the section stream the module model starts from (and back, for walrus's output): Model/ModBytes.v
    from .c12 import modbytes_run
    d2, c2 = modbytes_run(ctx, thorough, search)
    r["disagreements"] += d2
    r.setdefault("coverage", {})["module_bytes"] = c2
    r["coverage"]["traces_validated_against_impl"] = r["coverage"].get("traces_validated_against_impl", 0) + c2.get("evaluated_in_coq", 0)
    return r
