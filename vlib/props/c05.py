"""C05: parsing is a total, sound and complete validation gate."""
import json, os, re
from .. import core

PROOF = "Props/C05.v"
RUN_FILES = []
CORR_NAME = "verdict of real Module parsing vs. a standalone wasmparser Validator with the same feature set, on a malformed-input stream; feature lists of the harness vs. Gen/Features.v"
ASSUMPTIONS = [
    "Gen/Gate.v and Gen/Features.v are regenerated from Module::parse / parse_local_functions / LocalFunction::parse / ModuleConfig::get_wasmparser_wasm_features on every run; the gate theorems are about the abstract loop over ANY validator step function",
    "the reference verdict is wasmparser 0.214's Validator::validate_all with the feature set of Gen/Features.v (cross-checked against the harness's own list in this run); its correctness w.r.t. the WebAssembly specification is trusted",
    "termination / stack use / panics on arbitrary bytes are observed on the generated stream (each parse on a thread with an 8 MiB stack, the whole run under a wall-clock limit), not proved for the Rust code",
]

FEATURE_NAMES = {"FLOATS", "MUTABLE_GLOBAL", "SATURATING_FLOAT_TO_INT", "SIGN_EXTENSION", "MULTI_VALUE", "REFERENCE_TYPES", "BULK_MEMORY", "SIMD", "RELAXED_SIMD", "TAIL_CALL", "MULTI_MEMORY", "MEMORY64", "THREADS"}


def correspondence(ctx, thorough, search):
    out = os.path.join(ctx.work, "search" if search else "corr")
    os.makedirs(out, exist_ok=True)
    n = 60000 if thorough else 2500
    dis, ov = [], []
    # (a) the feature set the harness hands to the reference validator is the one the code configures (Gen/Features.v)
    feat = open(os.path.join(core.COQ, "Gen", "Features.v")).read()
    st = re.search(r"features_stable : list feature := \[(.*?)\]", feat).group(1)
    un = re.search(r"features_stable \+\+ \[(.*?)\]", feat).group(1)
    gen_stable = {x.strip()[2:] for x in st.split(";") if x.strip()}
    gen_unstable = {x.strip()[2:] for x in un.split(";") if x.strip()}
    env = open(os.path.join(core.VERIF, "harness", "src", "env.rs")).read()
    fn = env[env.index("pub fn walrus_features"):]; fn = fn[:fn.index("\n}\n")]
    head, _, tail = fn.partition("if !only_stable")
    h_stable = set(re.findall(r"WasmFeatures::(\w+)\)", head)); h_unstable = set(re.findall(r"WasmFeatures::(\w+)\)", tail))
    if h_stable != gen_stable or h_unstable != gen_unstable:
        dis.append({"what": "feature set configured by the code differs from the reference oracle's", "code_stable": sorted(gen_stable), "oracle_stable": sorted(h_stable), "code_unstable_only": sorted(gen_unstable), "oracle_unstable_only": sorted(h_unstable)})
    # (b) the stream
    rc, o, dt = core.sh([core.vh(), "c05", out, str(ctx.seed + (505 if search else 0)), str(n), "1"], timeout=2400)
    cur = os.path.join(out, "current.hex")
    if rc != 0 or os.path.exists(cur):
        what = "the harness process died (rc=%s) while parsing the input recorded in current.hex: stack overflow, abort or hang (wall limit)" % rc
        inp = open(cur).read() if os.path.exists(cur) else None
        ov.append({"class": "parse-crashes-process", "what": what + ((": " + inp.split("\n")[0]) if inp else ""), "input": {"current_hex": inp}, "replay_cmd": "ModuleConfig::new().parse(bytes) on a thread with an 8 MiB stack"})
        return {"disagreements": dis, "oracle_violations": ov, "coverage": {"evaluations": 0}}
    meta = json.load(open(os.path.join(out, "meta.json")))
    for v in meta.get("oracle_violations", []):
        ov.append({"class": v["class"], "what": v["what"], "input": {"module_hex": v.get("input"), "only_stable_features": v.get("only_stable")},
                   "replay_cmd": "ModuleConfig::new().only_stable_features(<flag>).parse(bytes) vs wasmparser::Validator::new_with_features(<walrus features>).validate_all(bytes)"})
    cov = {"evaluations": meta["cases"], "distinct_nontrivial": meta["cases"], "traces_validated_against_impl": meta["cases"],
           "rule": "fixtures + generated valid modules as seeds; structure-aware mutations (bit flips, boundary bytes, truncation, insertion/deletion, section swap/duplication/id change, LEB variants, splices between modules, runs) with a quarter double-mutated; random byte strings; hand-made boundary inputs (nesting 1000/20000/200000 of block/loop/if/if-else, 49999/50000/50001 locals, a 2^32-1 locals run, vectors announcing 2^32-1 elements, 30000 functions, br_table 20000, empty/short/bad headers, component header); one module per proposal walrus does not implement or only enables by default; every input under {default, only_stable_features}",
           "input_distribution": {k: meta[k] for k in ("inputs", "seeds", "mutants", "accepted_by_walrus", "rejected_by_walrus", "valid_by_reference", "mutation_kinds", "slowest")},
           "walrus_error_kinds_top": sorted(meta.get("walrus_error_kinds", []), key=lambda s: -int(s.rsplit("x", 1)[1]))[:25],
           "exhaustive": False}
    return {"disagreements": dis, "oracle_violations": ov, "coverage": cov}
