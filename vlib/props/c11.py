"""C11: the code-offset map handed to custom sections is exact."""
import json, os
from .. import core

PROOF = "Props/C11.v"
RUN_FILES = ["Run/CodeMapRun.v", "Run/LebRun.v", "Run/FrameRun.v", "Run/BytesRun.v"]
CORR_NAME = "CodeMap model (over parseM/emitM and the Emit visitor model) vs. the CodeTransform real walrus hands to a recording custom section"
ASSUMPTIONS = [
    "Model/CodeMap.v is a hand-written model of the tail of ModuleFunctions::emit (BTreeMap fill, function ranges, code_section_start); positions inside a body come from Model/EmitFn.v (checked by C03/C15); the models are tied to the code by comparing the CodeTransform observed through CustomSection::apply_code_transform on every case (this run)",
    "byte lengths of instructions: Model/Bytes.v models the binary encoding of all 517 operators and the control instructions (opcode table generated from what wasmparser reads, translator/bytes), proves reader . writer = id and that its instruction lengths are a legitimate instance of the length parameter, and is compared with the real bytes and offsets of every body in this run; the CodeMap replay itself still runs with unit lengths and the harness translates every reported absolute offset into (function, operator ordinal) using an independent decode of the output; offsets that are not the start of an operator cannot be translated and are reported",
    "the layout of a code section (count, then size-prefixed bodies) and LEB128 lengths are modelled (leb_len); LEB128 itself is modelled byte by byte (Model/Leb.v: round trip, prefix-freeness, length = leb_len proved in Proofs/Leb.v) and compared with wasm-encoder's bytes and wasmparser's reader on every group-count boundary and random values (unsigned and signed) in this run",
]


def bytes_run(ctx, thorough, search):
    """byte-level encoding of function bodies (Model/Bytes.v): every body of every input module and of walrus's output, decoded by wasmparser
    (locals, operators, operator offsets) vs. the model's writer and reader"""
    out = os.path.join(ctx.work, ("search" if search else "corr") + "_bytes")
    rc, o, dt = core.sh([core.vh(), "bytes", out, str(ctx.seed + (57 if search else 0)), str(300 if thorough else 30)], timeout=2400)
    if rc != 0:
        return [{"error": "bytes harness failed", "out": o[-600:]}], {}
    meta = json.load(open(os.path.join(out, "meta.json")))
    results, errors = core.coq_eval(out, "cases_bytes_*.v")
    dis = [{"file": f, "coq_error": m[-400:]} for f, m in errors.items()]
    names = {91: "the model's writer does not reproduce the real bytes of the body", 92: "the model's reader does not give back the decoded locals / operators", 93: "operator outside the covered subset",
             94: "the length of an instruction differs from the distance between real operator offsets", 95: "an immediate of a real body is outside the range the model's well-formedness predicate allows"}
    n, hist = 0, {}
    for f, codes in results.items():
        n += len(codes)
        for i, c in enumerate(codes):
            hist[c] = hist.get(c, 0) + 1
            if c not in (0, 93):
                dis.append({"code": c, "meaning": names.get(c, "?"), "file": os.path.basename(f), "case_index": i})
    cov = {k: meta.get(k) for k in ("modules", "input_bodies", "output_bodies", "operators", "bodies_too_large", "bodies_with_unmodelled_operator_terms", "unmodelled_operator_terms", "walrus_failures", "shards")}
    cov["evaluated_in_coq"] = n
    cov["codes"] = {str(k): v for k, v in sorted(hist.items())}
    cov["rule"] = "every function body (up to ~600 bytes) of the corpus, the fixtures, generated modules (attribute, whole-universe, integer-core and dense boundary-immediate bodies) and an operator x boundary-immediate sweep, and of walrus's output for each (after GC for some): for INPUT bodies the model's reader must give wasmparser's locals, operators and operator offsets (padded LEB128 allowed); for OUTPUT bodies the model's writer must in addition reproduce the bytes and every instruction length"
    return dis, cov


def correspondence(ctx, thorough, search, prop="C11", sub=""):
    out = os.path.join(ctx.work, ("search" if search else "corr") + sub)
    n = 600 if thorough else 40
    rc, o, dt = core.sh([core.vh(), "c11", out, str(ctx.seed + (911 if search else 0)), str(n)], timeout=3000)
    if rc != 0:
        return {"disagreements": [{"error": "harness failed", "out": o[-800:]}], "oracle_violations": [], "coverage": {}}
    meta = json.load(open(os.path.join(out, "meta.json")))
    results, errors = core.coq_eval(out)
    dis = [{"file": f, "coq_error": msg[-400:]} for f, msg in errors.items()]
    n_eval = 0
    names = {21: "instruction map differs", 22: "function ranges differ", 23: "code_section_start differs", 2: "model rejects", 3: "model panics", 31: "LEB128 unsigned bytes differ from wasm-encoder", 32: "LEB128 unsigned read-back differs (model / wasmparser)", 33: "leb_len differs from the encoded length", 34: "leb5 differs from the encoded length", 35: "LEB128 signed bytes differ from wasm-encoder", 36: "LEB128 signed read-back differs (model / wasmparser)"}
    for f, codes in results.items():
        n_eval += len(codes)
        for i, c in enumerate(codes):
            if c != 0:
                dis.append({"code": c, "meaning": names.get(c, "?"), "file": os.path.basename(f), "case_index": i})
    ov = [{"class": v["class"], "what": v["what"], "input": {"module_hex": v.get("input")},
           "replay_cmd": "parse <module_hex> with ModuleConfig::preserve_code_transform(true), add a custom section whose apply_code_transform records its argument, emit_wasm, compare with the decoded output"}
          for v in meta.get("oracle_violations", []) if prop in v.get("props", "").split()]
    cov = {"evaluations": meta["cases"], "distinct_nontrivial": meta["cases"],
           "rule": "corpus + all fixtures + body-rich generated modules (nested blocks/loops/ifs with and without else, dead code, nops) + modules with 130 and 16390 function bodies (2- and 3-byte count LEB); each emitted with preserve_code_transform three times: unchanged, after the GC pass, and after inserting marker instructions at random positions through the builder API; every pair, every function range and code_section_start compared with the independently decoded output",
           "samples": meta["samples"], "traces_validated_against_impl": n_eval,
           "input_distribution": {k: meta[k] for k in ("leb_cases", "inputs", "corpus", "fixtures", "generated", "after_gc", "with_inserted_instructions", "pairs_checked", "function_ranges_checked", "outside_modelled_universe")},
           "exhaustive": False}
    if not sub:
        # byte-level layout of the emitted code section (Model/Frame.v): body offsets per wasmparser vs the model's
        from .c12 import frame_run
        d2, _, c2 = frame_run(ctx, thorough, search)
        dis += d2
        cov["framing"] = c2
        d3, c3 = bytes_run(ctx, thorough, search)
        dis += d3
        cov["body_bytes"] = c3
        cov["traces_validated_against_impl"] += c3.get("evaluated_in_coq", 0)
    return {"disagreements": dis, "oracle_violations": ov, "coverage": cov}
