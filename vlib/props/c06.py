"""C06 (module-level): see Props/C06.v and DESIGN.md section 5."""
from .modcommon import run_mod

PROOF = "Props/C06.v"
RUN_FILES = ["Run/ModuleRun.v"]
CORR_NAME = "parseM / gc / emitM models vs. real parse, gc, emit_wasm on fixtures and generated modules"
ASSUMPTIONS = [
    "Model/ParseM.v, EmitM.v, GC.v are hand-written executable models of src/module/*.rs and src/passes/*.rs; attribute plumbing (Gen/Attrs.v), operator tables and visited-reference tables (Gen/Ops.v) are regenerated from the source; the models are tied to the code by replaying every (module, configuration) case on them and comparing the emitted section stream (this run)",
    "wasm-encoder's byte encoding of an abstract section and wasmparser's decoding are trusted and used as the differential oracle",
    "validation of the input is wasmparser's and is a premise of the theorems",
    "behaviour after GC is observed by executing input and GC output side by side with node (see C01), not proved",
]


def correspondence(ctx, thorough, search):
    """structural half: the module-level run; behavioural half: input vs. GC+emit output executed side by side (the C01 executor)"""
    from . import c01
    r = run_mod(ctx, thorough, search, "C06")
    x = c01.correspondence(ctx, thorough, search, prop="C06")
    r["oracle_violations"] += x["oracle_violations"]
    r["coverage"]["execution_after_gc"] = x["coverage"].get("input_distribution")
    r["coverage"]["rule"] = r["coverage"].get("rule", "") + " || execution: " + x["coverage"].get("rule", "")
    return r
