"""C10: DWARF addresses follow their instructions and functions."""
import json, os
from .. import core

PROOF = "Props/C10.v"
RUN_FILES = ["Run/DwarfRun.v", "Run/LineProgRun.v", "Run/DieCursorRun.v"]
CORR_NAME = "address classifier (Model/Dwarf.v find_address vs. the real CodeAddressGenerator through the verif hook) and line-program rewriting (Model/LineProg.v over Model/Dwarf.v convert_address vs. the rows gimli reads back from the emitted .debug_line), on the tables of real modules"
ASSUMPTIONS = [
    "Model/Dwarf.v is a hand-written model of CodeAddressGenerator::find_address / CodeAddressConverter::find_address / the rebase in ModuleDebugData::emit; the classifier is tied to the code by calling the hook on every instruction start, every range boundary and their neighbours in every module of the run and comparing inside Coq; the converter and the rebase are tied end-to-end by the DWARF oracle",
    "Model/LineProg.v is a hand-written model of the row loop of convert_line_program (begin / row / end decisions and offsets); it is tied to the code by replaying the input instruction stream of every emission over the converter model and comparing with the rows read back from the output, inside Coq",
    "Model/DieCursor.v is a hand-written model of the explicit-stack DIE cursor (units.rs); it is tied to the code by asking the real cursor (hook) for its visiting order on gimli units of random shape and comparing inside Coq; that gimli's own conversion keeps the tree shape and that its reader cursor is pre-order are gimli's",
    "gimli (0.26, the version walrus links) writes the synthetic input DWARF and reads the output back; its reader/writer, the header / file-table conversion and the DIE plumbing of src/module/debug/dwarf.rs are not modelled: they are covered end-to-end only (every row and every subprogram of every emission is compared with an independent decode of the emitted code section)",
    "the instruction map and function ranges used by the converter are those of C11",
]


def correspondence(ctx, thorough, search, prop="C10", sub=""):
    out = os.path.join(ctx.work, ("search" if search else "corr") + sub)
    n = 300 if thorough else 12
    rc, o, dt = core.sh([core.vh(), "c10", out, str(ctx.seed + (1010 if search else 0)), str(n)], timeout=3000)
    if rc != 0:
        return {"disagreements": [{"error": "harness failed", "out": o[-800:]}], "oracle_violations": [], "coverage": {}}
    meta = json.load(open(os.path.join(out, "meta.json")))
    results, errors = core.coq_eval(out)
    dis = [{"file": f, "coq_error": msg[-400:]} for f, msg in errors.items()]
    n_eval = 0
    for f, codes in results.items():
        n_eval += len(codes)
        for i, c in enumerate(codes):
            if c != 0:
                meaning = {31: "classification of a probe address differs", 41: "the line-program model reports a conversion error where walrus emitted a program",
                           42: "the rows read back from the emitted line program differ from the rows the model generates", 43: "the model violates gimli's writer assertions or leaves a sequence open", 44: "a subprogram (low_pc, high_pc) read back from the output differs from convert_subprogram of the model"}.get(c, "?")
                dis.append({"code": c, "meaning": meaning, "file": os.path.basename(f), "case_index": i})
    # the DIE cursor: random unit shapes through the real cursor (hook) vs Model/DieCursor.v
    outc = out + "_diecur"
    rc2, o2, _ = core.sh([core.vh(), "diecur", outc, str(ctx.seed + (5 if search else 0)), str(3000 if thorough else 400)], timeout=600)
    metac = {}
    if rc2 != 0:
        dis.append({"error": "harness diecur failed", "out": o2[-800:]})
    else:
        metac = json.load(open(os.path.join(outc, "meta.json")))
        resc, errc = core.coq_eval(outc)
        for f, msg in errc.items():
            dis.append({"file": f, "coq_error": msg[-400:]})
        for f, codes in resc.items():
            n_eval += len(codes)
            for i, c in enumerate(codes):
                if c != 0:
                    dis.append({"code": c, "meaning": "the visiting order of the real DIE cursor differs from the model's", "file": os.path.basename(f), "case_index": i})
    ov = [{"class": v["class"], "what": v["what"], "input": {"module_hex": v.get("input")},
           "replay_cmd": "ModuleConfig::new().generate_dwarf(true).parse(<module_hex>), apply the variant named in `what`, emit_wasm, read .debug_line/.debug_info back with gimli and compare with the decoded code section"}
          for v in meta.get("oracle_violations", []) if prop in v.get("props", "").split()]
    cov = {"evaluations": meta["emissions"], "distinct_nontrivial": meta["emissions"], "traces_validated_against_impl": n_eval,
           "rule": "modules with functions of different sizes (reordered by the emitter), function counts 1/3/5/127/128/130 (count-LEB boundary), bodies around the 128-byte size-LEB boundary, dead code and nops that shrink bodies, a function whose first instruction is removed, plus body-rich generated modules; DWARF synthesised with gimli: v4 and v5, one row per instruction (line number = identity of the instruction), one subprogram per function with low_pc at the body start, one sequence per function, per TWO functions, or ONE sequence over all functions (with the first / last function of a sequence removed by GC), v5 rows naming file 0; each emitted unchanged, after GC, and after inserting marker instructions; every row and subprogram of the output compared; classifier probes = all instruction starts, range boundaries and neighbours",
           "input_distribution": dict({k: meta[k] for k in ("inputs", "emissions", "rows_checked", "subprograms_checked", "panics", "configurations", "line_program_cases")}, die_cursor_units=metac),
           "exhaustive": False}
    return {"disagreements": dis, "oracle_violations": ov, "coverage": cov}
