"""Shared runner for the module-level harness (`vh mod`): fixtures + attribute cross-product modules +
body-rich modules through real walrus under several configurations (with and without GC); the Coq
side replays parse -> [gc] -> emit on the models (Run/ModuleRun.check_module); each property keeps
the oracle classes that concern it."""
import json, os
from .. import core

_cache = {}


def run_mod(ctx, thorough, search, prop):
    key = (thorough, search)
    out = os.path.join(ctx.work, "search" if search else "corr")
    n_attr, n_body = (4000, 300) if thorough else (160, 16)
    rc, o, dt = core.sh([core.vh(), "mod", out, str(ctx.seed + (333 if search else 0)), str(n_attr), str(n_body)], timeout=3000)
    if rc != 0:
        return {"disagreements": [{"error": "harness failed", "out": o[-800:]}], "oracle_violations": [], "coverage": {}}
    meta = json.load(open(os.path.join(out, "meta.json")))
    results, errors = core.coq_eval(out)
    dis = [{"file": f, "coq_error": msg[-400:]} for f, msg in errors.items()]
    n_eval = 0
    for f, codes in results.items():
        lines = None
        n_eval += len(codes)
        for i, c in enumerate(codes):
            if c != 0:
                if lines is None:
                    lines = core.case_lines(f)
                dis.append({"code": c, "meaning": "first differing section = code-100" if c > 100 else {1: "model emits, walrus did not", 2: "model errors, walrus did not", 3: "model panics, walrus did not"}.get(c, "?"), "file": os.path.basename(f), "case_index": i})
    ov = []
    for v in meta.get("oracle_violations", []):
        if prop in v.get("props", "").split():
            ov.append({"class": v["class"], "what": v["what"], "input": {"module_hex": v.get("input")}, "observed": (v.get("observed") or "")[:2000], "expected": (v.get("expected") or "")[:2000],
                       "replay_cmd": "vh dbg <file with module_hex>  /  walrus::Module::from_buffer(bytes) then the operation named in `what`"})
    cov = {
        "evaluations": meta["cases"], "distinct_nontrivial": meta["cases"],
        "rule": "all .wat/.wast fixtures of crates/tests (x {emit, gc+emit}) + attribute cross-product modules (imports of every kind, 32/64-bit and shared memories, table64, every element-segment encoding 0..7 incl. externref expression items, active/passive data with and without data count, names for every kind incl. locals, producers with and without an existing walrus entry, custom sections at arbitrary places with tricky names, start, duplicate types) + body-rich modules, each under a randomly drawn configuration (names, producers, gc, synthetic names); a case = one (module, configuration)",
        "samples": [s[:600] for s in meta["samples"]], "traces_validated_against_impl": n_eval,
        "input_distribution": {k: meta[k] for k in ("fixtures", "attr_modules", "body_modules", "attr_invalid_discarded", "outside_modelled_universe", "walrus_errors", "walrus_panics", "attr_distribution")},
        "exhaustive": False,
    }
    return {"disagreements": dis, "oracle_violations": ov, "coverage": cov}
