"""Shared runner for the module-level harness (`vh mod`): fixtures + attribute cross-product modules +
body-rich modules through real walrus under several configurations (with and without GC); the Coq
side replays parse -> [gc] -> emit on the models (Run/ModuleRun.check_module); each property keeps
the oracle classes that concern it."""
import json, os
from .. import core

_cache = {}


def run_mod(ctx, thorough, search, prop):
    key = (thorough, search)
    out = os.path.join(ctx.work, "search" if search else "corr")
    n_attr, n_body = (4000, 300) if thorough else (160, 16)
    rc, o, dt = core.sh([core.vh(), "mod", out, str(ctx.seed + (333 if search else 0)), str(n_attr), str(n_body)], timeout=3000)
    if rc != 0:
        return {"disagreements": [{"error": "harness failed", "out": o[-800:]}], "oracle_violations": [], "coverage": {}}
    meta = json.load(open(os.path.join(out, "meta.json")))
    results, errors = core.coq_eval(out)
    dis = [{"file": f, "coq_error": msg[-400:]} for f, msg in errors.items()]
    n_eval = 0
    for f, codes in results.items():
        lines = None
        n_eval += len(codes)
        for i, c in enumerate(codes):
            if c != 0:
                if lines is None:
                    lines = core.case_lines(f)
                dis.append({"code": c, "meaning": "first differing section = code-100" if c > 100 else {1: "model emits, walrus did not", 2: "model errors, walrus did not", 3: "model panics, walrus did not"}.get(c, "?"), "file": os.path.basename(f), "case_index": i})
    ov = []
    for v in meta.get("oracle_violations", []):
        if prop in v.get("props", "").split():
            ov.append({"class": v["class"], "what": v["what"], "input": {"module_hex": v.get("input")}, "observed": (v.get("observed") or "")[:2000], "expected": (v.get("expected") or "")[:2000],
                       "replay_cmd": "vh dbg <file with module_hex>  /  walrus::Module::from_buffer(bytes) then the operation named in `what`"})
    cov = {
        "evaluations": meta["cases"], "distinct_nontrivial": meta["cases"],
        "rule": "all .wat/.wast fixtures of crates/tests (x {emit, gc+emit}) + attribute cross-product modules (imports of every kind, 32/64-bit and shared memories, table64, every element-segment encoding 0..7 incl. externref expression items, active/passive data with and without data count, names for every kind incl. locals, producers with and without an existing walrus entry, custom sections at arbitrary places with tricky names, start, duplicate types) + body-rich modules, each under a randomly drawn configuration (names, producers, gc, synthetic names); a case = one (module, configuration)",
        "samples": [s[:600] for s in meta["samples"]], "traces_validated_against_impl": n_eval,
        "input_distribution": {k: meta[k] for k in ("fixtures", "attr_modules", "body_modules", "attr_invalid_discarded", "outside_modelled_universe", "walrus_errors", "walrus_panics", "attr_distribution")},
        "exhaustive": False,
    }
    if prop in ("C06", "C02"):
        # per-operator sweep of the GC pass: each operator instance is the ONLY user of the entities its immediates name
        og = os.path.join(out, "opgc")
        rc2, o2, _ = core.sh([core.vh(), "opgc", og, "thorough" if thorough else "quick"], timeout=1500)
        if rc2 != 0:
            dis.append({"error": "per-operator gc sweep failed", "out": o2[-600:]})
        else:
            m2 = json.load(open(os.path.join(og, "meta.json")))
            for v in m2.get("oracle_violations", []):
                if prop in v.get("props", "").split():
                    ov.append({"class": v["class"], "what": v["what"], "input": {"module_hex": v.get("input"), "operator": v.get("operator")}, "observed": (v.get("observed") or "")[:2000],
                               "replay_cmd": "walrus::Module::from_buffer(<module_hex>), passes::gc::run, emit_wasm, validate the output and compare the body of export f1"})
            cov["per_operator_gc_sweep"] = {k: m2.get(k) for k in ("operator_instances", "distinct_operators", "instances_with_immediates")}
            cov["rule"] += " || per-operator gc sweep: every operator of wasmparser's list the validator accepts x boundary immediates, in live position in a module where ONLY the test function is exported (so each entity an immediate names is kept alive by that operator alone): parse, gc, emit must not panic, the output must validate and carry the same operators"
    return {"disagreements": dis, "oracle_violations": ov, "coverage": cov}
