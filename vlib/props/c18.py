"""C18: function replacement edits rewire exactly one thing."""
import json, os
from .. import core

PROOF = "Props/C18.v"
RUN_FILES = ["Run/ModuleRun.v"]
CORR_NAME = "parseM / replace_*_func / emitM models vs. real parse, replace_imported_func / replace_exported_func, emit_wasm"
ASSUMPTIONS = [
    "Model/Edit.v is a hand-written model of ModuleFunctions::replace_imported_func / replace_exported_func; it is tied to the code by replaying every edit the harness performs on real walrus (every imported and every exported function of every input, plus edits that must be refused) and comparing the emitted section stream (this run)",
    "the replacement bodies are builder programs (marker constant, optional trap, results of the right types); the builder model is the one checked by C15",
    "that the edited module validates is observed (wasmparser validator) for every case, not proved",
]


def correspondence(ctx, thorough, search, prop="C18", sub=""):
    out = os.path.join(ctx.work, ("search" if search else "corr") + sub)
    n = 600 if thorough else 40
    rc, o, dt = core.sh([core.vh(), "c18", out, str(ctx.seed + (777 if search else 0)), str(n)], timeout=3000)
    if rc != 0:
        return {"disagreements": [{"error": "harness failed", "out": o[-800:]}], "oracle_violations": [], "coverage": {}}
    meta = json.load(open(os.path.join(out, "meta.json")))
    results, errors = core.coq_eval(out)
    dis = [{"file": f, "coq_error": msg[-400:]} for f, msg in errors.items()]
    n_eval = 0
    for f, codes in results.items():
        n_eval += len(codes)
        for i, c in enumerate(codes):
            if c != 0:
                dis.append({"code": c, "meaning": "first differing section = code-100" if c > 100 else "verdicts differ", "file": os.path.basename(f), "case_index": i})
    ov = [{"class": v["class"], "what": v["what"], "input": {"module_hex": v.get("input")},
           "replay_cmd": "parse <module_hex> with walrus, perform the edit named in `what` with a body `i32.const 24301; drop; <results>`, emit, validate"}
          for v in meta.get("oracle_violations", []) if prop in v.get("props", "").split()]
    cov = {"evaluations": meta["cases"], "distinct_nontrivial": meta["cases"],
           "rule": "corpus + fixtures mentioning imports/calls/elements + attribute cross-product modules with at least one imported or exported function; for EVERY imported function replace_imported_func, for EVERY exported local function replace_exported_func, and for 1 in 6 of the others an edit that must be refused; replacement body with or without use of the arguments, trapping or returning",
           "samples": meta["samples"], "traces_validated_against_impl": n_eval,
           "input_distribution": {k: meta[k] for k in ("inputs", "replace_imported_edits", "replace_exported_edits")},
           "exhaustive": False}
    return {"disagreements": dis, "oracle_violations": ov, "coverage": cov}
