"""C18: function replacement edits rewire exactly one thing."""
import json, os
from .. import core

PROOF = "Props/C18.v"
RUN_FILES = ["Run/ModuleRun.v"]
CORR_NAME = "parseM / replace_*_func / emitM models vs. real parse, replace_imported_func / replace_exported_func, emit_wasm"
ASSUMPTIONS = [
    "Model/Edit.v is a hand-written model of ModuleFunctions::replace_imported_func / replace_exported_func; it is tied to the code by replaying every edit the harness performs on real walrus (every imported and every exported function of every input, plus edits that must be refused) and comparing the emitted section stream (this run)",
    "the replacement bodies are builder programs (marker constant, optional trap, results of the right types); the builder model is the one checked by C15",
    "that the edited module validates is observed (wasmparser validator) for every case, not proved",
    "behaviour of the edited module is observed by executing it in node against the expected-behaviour model: replace_imported_func(env.imp, no-op body) must equal the original run with a no-op host function; replace_exported_func(f, constant body) must return the constants from that export and leave every other export as it was",
]


def _run18(a):
    import subprocess
    d, i = a
    try:
        r = subprocess.run(["node", "--experimental-wasm-relaxed-simd", os.path.join(core.VERIF, "js", "run18.mjs"), d, i], capture_output=True, text=True, timeout=30)
        if r.stdout.strip():
            return json.loads(r.stdout.strip().splitlines()[-1])
        return {"id": i, "verdict": "crash", "err": r.stderr[-300:]}
    except subprocess.TimeoutExpired:
        return {"id": i, "verdict": "timeout"}


def execute_edits(ctx, thorough, search):
    import shutil, concurrent.futures as cf
    out = os.path.join(ctx.work, "exec" + ("_search" if search else ""))
    shutil.rmtree(out, ignore_errors=True)
    rc, o, dt = core.sh([core.vh(), "c18gen", out, str(ctx.seed + (1818 if search else 0)), str(400 if thorough else 30)], timeout=2400)
    if rc != 0:
        return [{"class": "harness", "what": "c18gen failed: " + o[-300:], "input": None}], {}
    idx = json.load(open(os.path.join(out, "index.json")))
    with cf.ThreadPoolExecutor(16) as ex:
        res = list(ex.map(_run18, [(out, i) for i in idx["ids"]]))
    ov, tally = [], {}
    for r in res:
        tally[r["verdict"]] = tally.get(r["verdict"], 0) + 1
        if r["verdict"] == "differs":
            plan = json.load(open(os.path.join(out, "%s.plan.json" % r["id"])))
            ov.append({"class": "edit-behaviour-differs:%s" % ("replace_imported_func" if r.get("kind") == 1 else "replace_exported_func"),
                       "what": "%s: %s" % (r.get("name"), "; ".join(r["mismatches"])[:600]),
                       "input": {"module_hex": open(os.path.join(out, "%s.in.wasm" % r["id"]), "rb").read().hex(), "edit": plan["name"], "calls": plan["calls"]},
                       "replay_cmd": "node js/run18.mjs <dir> <id> (dir from `vh c18gen`): original (kind 1: with a no-op host function) vs edited module, same call sequence"})
    return ov, {"edited_modules_executed": len(res), "verdicts": tally, "replace_imported": idx.get("replace_imported"), "replace_exported": idx.get("replace_exported"),
                "calls": sum(r.get("calls", 0) for r in res), "calls_of_replaced_export": sum(r.get("replaced_calls", 0) for r in res)}


def correspondence(ctx, thorough, search, prop="C18", sub=""):
    out = os.path.join(ctx.work, ("search" if search else "corr") + sub)
    n = 600 if thorough else 40
    rc, o, dt = core.sh([core.vh(), "c18", out, str(ctx.seed + (777 if search else 0)), str(n)], timeout=3000)
    if rc != 0:
        return {"disagreements": [{"error": "harness failed", "out": o[-800:]}], "oracle_violations": [], "coverage": {}}
    meta = json.load(open(os.path.join(out, "meta.json")))
    results, errors = core.coq_eval(out)
    dis = [{"file": f, "coq_error": msg[-400:]} for f, msg in errors.items()]
    n_eval = 0
    for f, codes in results.items():
        n_eval += len(codes)
        for i, c in enumerate(codes):
            if c != 0:
                dis.append({"code": c, "meaning": "first differing section = code-100" if c > 100 else "verdicts differ", "file": os.path.basename(f), "case_index": i})
    ov = [{"class": v["class"], "what": v["what"], "input": {"module_hex": v.get("input")},
           "replay_cmd": "parse <module_hex> with walrus, perform the edit named in `what` with a body `i32.const 24301; drop; <results>`, emit, validate"}
          for v in meta.get("oracle_violations", []) if prop in v.get("props", "").split()]
    # behavioural half: the edited modules executed against the expected-behaviour model (js/run18.mjs)
    xo, xcov = execute_edits(ctx, thorough, search)
    ov += [v for v in xo if prop in ("C18",)]
    cov = {"evaluations": meta["cases"], "distinct_nontrivial": meta["cases"],
           "rule": "corpus + fixtures mentioning imports/calls/elements + attribute cross-product modules with at least one imported or exported function; for EVERY imported function replace_imported_func, for EVERY exported local function replace_exported_func, and for 1 in 6 of the others an edit that must be refused; replacement body with or without use of the arguments, trapping or returning",
           "samples": meta["samples"], "traces_validated_against_impl": n_eval,
           "input_distribution": {k: meta[k] for k in ("inputs", "replace_imported_edits", "replace_exported_edits")},
           "execution": xcov, "exhaustive": False}
    return {"disagreements": dis, "oracle_violations": ov, "coverage": cov}
