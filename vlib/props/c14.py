"""C14 (module-level): see Props/C14.v and DESIGN.md section 5."""
import json, os
from .. import core
from .modcommon import run_mod

PROOF = "Props/C14.v"
RUN_FILES = ["Run/ModuleRun.v", "Run/ConfigRun.v"]
CORR_NAME = "parseM / gc / emitM models vs. real parse, gc, emit_wasm on fixtures and generated modules; Model/Config.v vs. the real ModuleConfig setters / Clone on exhaustive short and random call sequences"
ASSUMPTIONS = [
    "Model/ParseM.v, EmitM.v, GC.v are hand-written executable models of src/module/*.rs and src/passes/*.rs; attribute plumbing (Gen/Attrs.v), operator tables (Gen/Ops.v) and hook shapes are regenerated from the source; the models are tied to the code by replaying every (module, configuration) case on them and comparing the emitted section stream (this run)",
    "wasm-encoder's byte encoding of an abstract section and wasmparser's decoding are trusted and used as the differential oracle; DWARF payloads are gimli's and only their inventory is compared here",
    "validation of the input is wasmparser's and is a premise of the theorems",
    "Model/Config.v is a hand-written model of the ModuleConfig setters and Clone; the assignments of every setter and the skeleton of Module::emit_wasm (section order, switch conditions, custom-section loop) are regenerated from the source (Gen/ConfigEmit.v) and pinned by config_source_pinned; the model is also run against the real setters (fields read from the Debug output)",
]


def correspondence(ctx, thorough, search):
    res = run_mod(ctx, thorough, search, "C14")
    out = os.path.join(ctx.work, ("search" if search else "corr") + "_cfg")
    rc, o, dt = core.sh([core.vh(), "c14cfg", out, str(ctx.seed + (77 if search else 0)), str(6000 if thorough else 800)], timeout=600)
    if rc != 0:
        res["disagreements"].append({"error": "harness c14cfg failed", "out": o[-800:]})
        return res
    meta = json.load(open(os.path.join(out, "meta.json")))
    results, errors = core.coq_eval(out)
    for f, msg in errors.items():
        res["disagreements"].append({"file": f, "coq_error": msg[-400:]})
    n = 0
    for f, codes in results.items():
        n += len(codes)
        for i, c in enumerate(codes):
            if c != 0:
                res["disagreements"].append({"code": c, "meaning": "the fields of the real ModuleConfig after a setter sequence differ from the model's", "file": os.path.basename(f), "case_index": i})
    if meta.get("unreadable_debug_output"):
        res["disagreements"].append({"error": "Debug output of ModuleConfig no longer lists every field", "count": meta["unreadable_debug_output"]})
    cov = res.get("coverage") or {}
    cov["traces_validated_against_impl"] = cov.get("traces_validated_against_impl", 0) + n
    cov.setdefault("input_distribution", {})["config_setter_sequences"] = {"cases": meta["cases"], "lengths": meta["sequence_lengths"]}
    res["coverage"] = cov
    return res
