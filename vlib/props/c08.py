"""C08 (module-level): see Props/C08.v and DESIGN.md section 5."""
from .modcommon import run_mod

PROOF = "Props/C08.v"
RUN_FILES = ["Run/ModuleRun.v"]
CORR_NAME = "parseM / gc / emitM models vs. real parse, gc, emit_wasm on fixtures and generated modules"
ASSUMPTIONS = [
    "Model/ParseM.v, EmitM.v, GC.v are hand-written executable models of src/module/*.rs and src/passes/*.rs; attribute plumbing (Gen/Attrs.v), operator tables (Gen/Ops.v) and hook shapes are regenerated from the source; the models are tied to the code by replaying every (module, configuration) case on them and comparing the emitted section stream (this run)",
    "wasm-encoder's byte encoding of an abstract section and wasmparser's decoding are trusted and used as the differential oracle; DWARF payloads are gimli's and only their inventory is compared here",
    "validation of the input is wasmparser's and is a premise of the theorems",
]


def cross_process(ctx, thorough, search):
    """the same inputs emitted by several separate PROCESSES (std's HashMap seeds differ per process): byte-identical output"""
    import os, shutil
    from .. import core
    out = os.path.join(ctx.work, "xproc" + ("_search" if search else ""))
    shutil.rmtree(out, ignore_errors=True); os.makedirs(out)
    inp = os.path.join(out, "inputs")
    rc, o, dt = core.sh([core.vh(), "c09gen", inp, str(ctx.seed + (88 if search else 0)), str(100 if thorough else 8)], timeout=1200)
    if rc != 0:
        return [{"class": "harness", "what": "input generation failed: " + o[-300:], "input": None}], {}
    runs = 5 if thorough else 3
    files = []
    for k in range(runs):
        f = os.path.join(out, "run%d.txt" % k)
        rc, o, dt = core.sh([core.vh(), "c09run", inp, f], timeout=2400)
        if rc != 0:
            return [{"class": "harness", "what": "run %d failed: %s" % (k, o[-300:]), "input": None}], {}
        files.append(open(f).read().splitlines())
    names = dict(l.split(" ", 1) for l in open(os.path.join(inp, "index.txt")).read().splitlines())
    ov = []
    for k in range(1, runs):
        for a, b in zip(files[0], files[k]):
            if a != b:
                iid = a.split(" ")[0]
                ov.append({"class": "output-differs-across-processes", "what": "%s: process 0 `%s` vs process %d `%s`" % (names.get(iid, iid), a[:120], k, b[:120]),
                           "input": {"module_hex": open(os.path.join(inp, iid + ".wasm"), "rb").read().hex()}, "replay_cmd": "parse + emit_wasm the module in two separate processes and compare the bytes"})
                break
    return ov, {"processes": runs, "lines_per_process": len(files[0])}


def correspondence(ctx, thorough, search):
    r = run_mod(ctx, thorough, search, "C08")
    ov, cov = cross_process(ctx, thorough, search)
    r["oracle_violations"] += ov
    r.setdefault("coverage", {})["cross_process"] = cov
    return r
