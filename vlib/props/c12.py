"""C12 (module-level): see Props/C12.v and DESIGN.md section 5."""
import json, os
from .. import core
from .modcommon import run_mod

PROOF = "Props/C12.v"
RUN_FILES = ["Run/ModuleRun.v", "Run/FrameRun.v", "Run/ModBytesRun.v"]
CORR_NAME = "parseM / gc / emitM models vs. real parse, gc, emit_wasm on fixtures and generated modules; byte-level framing model vs. wasmparser / wasm-encoder / what walrus stores"
ASSUMPTIONS = [
    "Model/ParseM.v, EmitM.v, GC.v are hand-written executable models of src/module/*.rs and src/passes/*.rs; attribute plumbing (Gen/Attrs.v), operator tables (Gen/Ops.v) and hook shapes are regenerated from the source; the models are tied to the code by replaying every (module, configuration) case on them and comparing the emitted section stream (this run)",
    "below the section stream, Model/Frame.v models the framing (magic, id / LEB128 size / payload, the name-length / name / data layout of a custom section, the count / size-prefixed bodies of the code section); it is tied to wasmparser's reader, wasm-encoder's writer and the (name, data) walrus keeps for every uninterpreted custom section by this run (Run/FrameRun.v); the encoding of every other payload is wasm-encoder's; DWARF payloads are gimli's and only their inventory is compared here",
    "validation of the input is wasmparser's and is a premise of the theorems",
]


def frame_run(ctx, thorough, search):
    out = os.path.join(ctx.work, ("search" if search else "corr") + "_frame")
    rc, o, dt = core.sh([core.vh(), "frame", out, str(ctx.seed + (55 if search else 0)), str(400 if thorough else 30)], timeout=1500)
    if rc != 0:
        return [{"error": "frame harness failed", "out": o[-600:]}], [], {}
    meta = json.load(open(os.path.join(out, "meta.json")))
    results, errors = core.coq_eval(out, "cases_frame_*.v")
    dis = [{"file": f, "coq_error": m[-400:]} for f, m in errors.items()]
    names = {51: "sections differ from wasmparser's reader", 52: "model cannot read the module", 53: "the model's writer does not reproduce walrus's output bytes", 54: "name / data of a custom section differ from what walrus keeps",
             55: "model cannot split the custom section", 56: "body offsets differ from wasmparser's", 57: "the model's writer does not reproduce the code section", 58: "model cannot read the code section"}
    n = 0
    for f, codes in results.items():
        n += len(codes)
        for i, c in enumerate(codes):
            if c != 0:
                dis.append({"code": c, "meaning": names.get(c, "?"), "file": os.path.basename(f), "case_index": i})
    ov = [{"class": v["class"], "what": v["what"], "input": {"module_hex": v.get("input")}, "replay_cmd": "parse <module_hex> and list module.customs"} for v in meta.get("oracle_violations", []) if "C12" in v.get("props", "").split()]
    cov = {k: meta.get(k) for k in ("cases", "inputs", "input_modules", "output_modules", "custom_sections", "custom_sections_with_multi_byte_name_length", "code_sections", "too_large_for_the_coq_side")}
    cov["evaluated_in_coq"] = n
    cov["samples"] = [s[:500] for s in meta.get("samples", [])]
    return dis, ov, cov


def modbytes_run(ctx, thorough, search):
    """the whole module as bytes (Model/ModBytes.v): the model's reader on the bytes of every input and of walrus's output vs. the section stream the
    harness prints (the input of parseM); on walrus's outputs the model's writer must reproduce the bytes exactly"""
    out = os.path.join(ctx.work, ("search" if search else "corr") + "_modbytes")
    rc, o, dt = core.sh([core.vh(), "modbytes", out, str(ctx.seed + (58 if search else 0)), str(300 if thorough else 30)], timeout=2400)
    if rc != 0:
        return [{"error": "modbytes harness failed", "out": o[-600:]}], {}
    meta = json.load(open(os.path.join(out, "meta.json")))
    results, errors = core.coq_eval(out, "cases_modbytes_*.v")
    dis = [{"file": f, "coq_error": m[-400:]} for f, m in errors.items()]
    names = {101: "the model's reader gives another section stream than the harness printed for these bytes", 102: "the model's reader fails on the bytes", 103: "the model's writer does not reproduce walrus's output bytes",
             104: "the model's writer fails on the stream of walrus's output", 105: "something outside the model (skipped)"}
    n, hist = 0, {}
    for f, codes in results.items():
        n += len(codes)
        for i, c in enumerate(codes):
            hist[c] = hist.get(c, 0) + 1
            if c not in (0, 105):
                dis.append({"code": c, "meaning": names.get(c, "?"), "file": os.path.basename(f), "case_index": i})
    cov = {k: v for k, v in meta.items() if not isinstance(v, (list, dict)) or k in ("samples",)}
    cov["evaluated_in_coq"] = n
    cov["codes"] = {str(k): v for k, v in sorted(hist.items())}
    cov["rule"] = "corpus, fixtures, generated attribute and body modules and hand-written variants (all 8 element forms and the data forms with padded LEB128, name-section variants with skipped / unknown / repeated / truncated subsections and bad UTF-8, producers variants, custom-section mixes), each at most ~1500 bytes: for the INPUT bytes the model's reader (with operator positions) must give the section stream the harness prints for parseM; for walrus's OUTPUT the reader must agree as well and the writer must reproduce the bytes exactly"
    return dis, cov


def correspondence(ctx, thorough, search):
    r = run_mod(ctx, thorough, search, "C12")
    dis, ov, cov = frame_run(ctx, thorough, search)
    r["disagreements"] += dis
    r["oracle_violations"] += ov
    r["coverage"]["framing"] = cov
    r["coverage"]["traces_validated_against_impl"] = r["coverage"].get("traces_validated_against_impl", 0) + cov.get("evaluated_in_coq", 0)
    d2, c2 = modbytes_run(ctx, thorough, search)
    r["disagreements"] += d2
    r["coverage"]["module_bytes"] = c2
    r["coverage"]["traces_validated_against_impl"] += c2.get("evaluated_in_coq", 0)
    r["coverage"]["rule"] = r["coverage"].get("rule", "") + " || framing: corpus, fixtures and generated modules of at most 900 bytes: the input's sections as wasmparser's BinaryReader sees them, walrus's output (reader AND writer: the model re-produces the bytes), the (name, data) walrus keeps for every uninterpreted custom section (incl. names of 128 bytes and more and padded name lengths), body offsets of the emitted code section"
    return r
