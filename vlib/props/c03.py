"""C03: every instruction survives the round trip with exact opcode and immediates."""
import json, os, re
from .. import core
from .bodycommon import run_body

PROOF = "Props/C03.v"
RUN_FILES = ["Run/CodecRun.v", "Run/BodyRun.v", "Run/BytesRun.v"]
CORR_NAME = "per-operator decode/encode tables vs. real round trip"
ASSUMPTIONS = [
    "Gen/Ops.v (wop, plain, decode_plain, encode_plain, map_idx) is regenerated from src/ir/mod.rs, local_function/mod.rs (append_instruction, mem_arg) and local_function/emit.rs (visit_instr, memarg) by /verif/translator on every run; the translator is trusted but every generated arm is re-run against the real code by the per-operator enumerator of this check",
    "operators are identified between wasmparser::Operator and wasm_encoder::Instruction by name; wasm-encoder's byte encoding and wasmparser's decoding are the differential oracle",
    "f32/f64 constants are modelled as bit patterns (from_bits/to_bits identity), v128 as a 128-bit little-endian number",
    "the validator guarantees imm_ok (alignment exponent <= natural alignment, ref.null on func/extern only)",
]


def correspondence(ctx, thorough, search):
    out = os.path.join(ctx.work, "search" if search else "corr")
    rc, o, dt = core.sh([core.vh(), "c03", out, str(ctx.seed), "thorough" if thorough else "quick"], timeout=3000)
    if rc != 0:
        return {"disagreements": [{"error": "harness failed", "out": o[-800:]}], "oracle_violations": [], "coverage": {}}
    meta = json.load(open(os.path.join(out, "meta.json")))
    results, errors = core.coq_eval(out)
    dis = [{"file": f, "coq_error": msg[-400:]} for f, msg in errors.items()]
    n_eval = 0
    for f, codes in results.items():
        lines = core.case_lines(f)
        n_eval += len(codes)
        if len(codes) != len(lines):
            dis.append({"file": f, "error": "result count %d != case count %d" % (len(codes), len(lines))})
            continue
        for c, l in zip(codes, lines):
            if c != 0:
                dis.append({"code": c, "case": l[:400]})
    ov = []
    for v in meta.get("oracle_violations", []):
        ov.append({"class": v["class"], "what": v["what"], "input": {"module_hex": v.get("input"), "operator": v.get("operator")}, "observed": v.get("observed"),
                   "replay_cmd": "walrus::Module::from_buffer(<module_hex>)?.emit_wasm(); decode body 0 with wasmparser and compare the operator after the padding"})
    cov = {
        "evaluations": meta["cases"], "distinct_nontrivial": meta["cases"],
        "rule": "every operator of wasmparser 0.214's for_each_operator! list that can be built (all non-GC/exception immediates) x boundary immediates (offsets 0,1,2^32-1 and on a 64-bit memory 2^32,2^32+1,2^64-1; alignment 0..5; memories/tables/indices 0..3; every lane; NaN payloads; extreme constants), kept when the reference validator accepts it under walrus's features, placed in live position (operands found by validator-guided search) and in dead position inside a fixed universe module; distinct = distinct (operator, immediates)",
        "samples": meta["samples"], "traces_validated_against_impl": n_eval,
        "input_distribution": {k: meta[k] for k in ("operators_in_wasmparser", "operator_instances_built", "instances_valid", "distinct_operators_accepted_by_validator", "per_proposal", "universe_is_fixpoint")},
        "exhaustive": False,
    }
    # second correspondence: whole function bodies (structure, labels, locals, dead code)
    b = run_body(ctx, thorough, search, "C03", stages={1, 4, 5})
    dis += b["disagreements"]; ov += b["oracle_violations"]
    bc = b.get("coverage", {})
    cov["evaluations"] += bc.get("evaluations", 0); cov["distinct_nontrivial"] += bc.get("distinct_nontrivial", 0)
    cov["traces_validated_against_impl"] += bc.get("traces_validated_against_impl", 0)
    cov["body_level"] = {k: bc.get(k) for k in ("rule", "input_distribution", "samples", "evaluations")}
    # third correspondence: the BYTES of every body (Model/Bytes.v) against wasmparser's reading of inputs and of walrus's outputs
    from .c11 import bytes_run
    d3, c3 = bytes_run(ctx, thorough, search)
    dis += d3
    cov["body_bytes"] = c3
    cov["traces_validated_against_impl"] += c3.get("evaluated_in_coq", 0)
    return {"disagreements": dis, "oracle_violations": ov, "coverage": cov}
