"""C17: identifiers stable, never reused; deletion isolated; types de-duplicated."""
import json, os, re
from .. import core

PROOF = "Props/C17.v"
RUN_FILES = ["Run/ArenaRun.v"]
CORR_NAME = "Arena/ArenaSet step-by-step"
ASSUMPTIONS = [
    "the Gallina model Model/Arena.v is hand-written; it is tied to src/tombstone_arena.rs, src/arena_set.rs and the public Module* collections by replaying every history on the real collections and comparing every step's output (this run)",
    "id_arena::Arena is modelled as an append-only vector whose id is the position (checked by the harness: id.index() == allocation count)",
    "HashMap<T,Id> of ArenaSet is modelled as an association list keyed by the Eq/Hash relation of Type (params, results, entry flag)",
    "mutation through get_mut / pub fields is outside the modelled vocabulary",
]


def correspondence(ctx, thorough, search):
    out = os.path.join(ctx.work, "search" if search else "corr")
    n_random = 20000 if thorough else 1500
    exh = 5 if thorough else 4
    rc, o, dt = core.sh([core.vh(), "c17", out, str(ctx.seed + (1000 if search else 0)), str(n_random), str(exh)], timeout=1200)
    if rc != 0:
        return {"disagreements": [{"error": "harness failed", "out": o[-800:]}], "oracle_violations": [], "coverage": {}}
    meta = json.load(open(os.path.join(out, "meta.json")))
    results, errors = core.coq_eval(out)
    dis = []
    for f, msg in errors.items():
        dis.append({"file": f, "coq_error": msg[-400:]})
    n_eval = 0
    for f, codes in results.items():
        lines = core.case_lines(f)
        n_eval += len(codes)
        if len(codes) != len(lines):
            dis.append({"file": f, "error": "result count %d != case count %d" % (len(codes), len(lines))})
            continue
        for c, l in zip(codes, lines):
            if c != 0:
                dis.append({"first_differing_step": c - 1, "case": l})
    ov = []
    for v in meta.get("oracle_violations", []):
        ov.append({"class": "arena:" + re.sub(r"\d+", "N", v["what"].split(": ", 1)[-1])[:60], "what": v["what"], "input": v["case"],
                   "replay_cmd": "evaluate the printed history on walrus::Module's collection kind %s" % v.get("kind")})
    cov = {
        "evaluations": meta["cases"], "distinct_nontrivial": meta["distinct_nontrivial"],
        "rule": "histories over {add, delete, get, iter, len, find} on 10 real collections (types, exports, memories, functions, globals, tables, data, elements, imports, custom sections: raw and two typed kinds): exhaustive up to length %d over a 2-item alphabet and ids 0..1, plus %d random histories of length <= 14 from the seeded PRNG; non-trivial = distinct history of >= 3 ops containing a delete" % (meta["exhaustive_len"], meta["random_cases"]),
        "samples": meta["samples"], "traces_validated_against_impl": n_eval,
        "input_distribution": {k: meta[k] for k in ("per_kind", "op_histogram", "panics_observed", "dedup_hits", "steps", "exhaustive_cases", "random_cases")},
        "exhaustive": False,
    }
    return {"disagreements": dis, "oracle_violations": ov, "coverage": cov}
