"""C15: IR built through the builder API is emitted faithfully."""
import json, os
from .. import core

PROOF = "Props/C15.v"
RUN_FILES = ["Run/BuilderRun.v"]
CORR_NAME = "builder model + emitter model vs. functions re-built through the real builder API"
ASSUMPTIONS = [
    "Model/Builder.v is a hand-written model of src/function_builder.rs (the generated .<name>/.<name>_at methods are `instr`/`instr_at` of the corresponding variant); it is tied to the code by replaying every call the harness issues on the real builder and comparing the resulting IR (public API) and the emitted body (this run)",
    "the theorems cover the structured fragment (closures); dangling sequences attached later by hand are exercised by the correspondence run only",
    "locals: one distinct slot per used local, parameters first, is checked through Model/Locals.v against the emitted locals declaration",
    "well-typedness of the built function is the generator's (functions are re-builds of validated bodies); emitted modules are re-validated",
]


def correspondence(ctx, thorough, search, prop="C15", sub=""):
    out = os.path.join(ctx.work, ("search" if search else "corr") + sub)
    n = 1200 if thorough else 50
    rc, o, dt = core.sh([core.vh(), "c15", out, str(ctx.seed + (555 if search else 0)), str(n)], timeout=3000)
    if rc != 0:
        return {"disagreements": [{"error": "harness failed", "out": o[-800:]}], "oracle_violations": [], "coverage": {}}
    meta = json.load(open(os.path.join(out, "meta.json")))
    results, errors = core.coq_eval(out)
    dis = [{"file": f, "coq_error": msg[-400:]} for f, msg in errors.items()]
    n_eval = 0
    for f, codes in results.items():
        lines = core.case_lines(f)
        n_eval += len(codes)
        if len(codes) != len(lines):
            dis.append({"file": f, "error": "result count %d != case count %d" % (len(codes), len(lines))}); continue
        for c, l in zip(codes, lines):
            if c != 0:
                dis.append({"stage": c, "case": l[:600]})
    ov = [{"class": v["class"], "what": v["what"], "input": {"module_hex": v.get("input"), "builder_calls": v.get("builder_calls")}, "observed": v.get("observed"), "expected": v.get("expected"),
           "replay_cmd": "parse <module_hex>, re-build the function with the listed builder calls, emit"} for v in meta.get("oracle_violations", []) if prop in v.get("props", "").split()]
    cov = {"evaluations": meta["cases"], "distinct_nontrivial": meta["cases"],
           "rule": "every local function of generated valid modules is re-built through the public builder API: per sequence either in order (instr) or in a random permutation with positional inserts (instr_at / block_at / loop_at / if_else_at), nested constructs through closures or as dangling sequences attached afterwards; distinct = distinct call sequence",
           "samples": meta["samples"], "traces_validated_against_impl": n_eval,
           "input_distribution": {k: meta[k] for k in ("modules_generated", "modules_invalid_discarded", "functions_rebuilt", "builder_calls", "positional_inserts", "dangling_then_attached", "created_before_its_enclosing_sequence")},
           "exhaustive": False}
    return {"disagreements": dis, "oracle_violations": ov, "coverage": cov}
