"""C01: the parse->emit round trip preserves execution behaviour (with the GC variant: the behavioural half of C06)."""
import re
import json, os, shutil, subprocess, concurrent.futures as cf
from .. import core

PROOF = "Props/C01.v"
RUN_FILES = ["Run/SemCoreRun.v", "Run/SemModRun.v", "Run/InstRun.v", "Run/BulkRun.v"]
CORR_NAME = "input and output binaries executed side by side by node's WebAssembly engine (an interpreter/compiler that does not link walrus)"
ASSUMPTIONS = [
    "Model/Sem.v is an abstract big-step semantics of structured operator forests, parametric in the semantics of the individual operators; the equivalence theorem assumes that an operator's semantics is invariant under the consistent renumbering of indices (the interface to the WebAssembly semantics) and that return/unreachable never fall through",
    "the normal form the theorem is about is tied to the code by C03 (emitted body = normal form of the parsed body) and to the bytes by flat_nf_rt",
    "Model/SemCore.v is a hand-written concrete semantics of 98 integer / memory operators with exact label records; it is tied to V8 by this run (results, traps, globals on generated functions) and instantiates the abstract theorem (c01_integer_core_instance)",
    "execution is observed with V8 (node 20) on generated modules of the subset it can instantiate (one plain 32-bit memory; relaxed SIMD behind a flag; no multi-memory/memory64/shared memory); generated loops never branch back and tail calls are acyclic so that every call terminates; a real loop, br_table, call_indirect and state-carrying calls are covered by hand-written modules",
]
WHICH = ("out", "gc")


def core_correspondence(ctx, thorough, search):
    """integer core: generated functions run by node (input and walrus's output, fresh instance per call) and by the Coq interpreter of
    Model/SemCore.v on the same body, arguments and globals; returns (disagreements, oracle_violations, coverage)"""
    out = os.path.join(ctx.work, ("search" if search else "corr") + "_core")
    shutil.rmtree(out, ignore_errors=True)
    n = 1500 if thorough else 150
    rc, o, dt = core.sh([core.vh(), "c01core", out, str(ctx.seed + (77 if search else 0)), str(n), "ext"], timeout=1200)
    if rc != 0:
        return [{"error": "core generator failed", "out": o[-600:]}], [], {}
    idx = json.load(open(os.path.join(out, "index.json")))
    r = subprocess.run(["node", os.path.join(core.VERIF, "js", "runcore.mjs"), out], capture_output=True, text=True, timeout=600)
    if r.returncode != 0 or not r.stdout.strip():
        return [{"error": "node failed on the integer-core cases", "out": r.stderr[-600:]}], [], {}
    by = {}
    for x in json.loads(r.stdout)["results"]:
        by.setdefault(x["id"], []).append(x)

    def res(v):
        if v["r"].startswith("ok:"):
            body = v["r"][3:]
            return "CROk [%s]" % "; ".join(t[1:] for t in body.split(",")) if body else "CROk []"
        return "CRTrap" if v["r"].startswith("trap:") else None
    lines, ov, ncalls, ntraps, trapk = [], [], 0, 0, {}
    for c in idx["cases"]:
        calls = []
        for x in sorted(by.get(c["id"], []), key=lambda q: q["k"]):
            if x["in"] != x["out"]:
                ov.append({"class": "behaviour-differs", "what": "integer-core function %s, call %d: input `%s` / output `%s`" % (c["id"], x["k"], json.dumps(x["in"]), json.dumps(x["out"])),
                           "input": {"module_hex": open(os.path.join(out, c["id"] + ".in.wasm"), "rb").read().hex(), "args": c["calls"][x["k"]]},
                           "replay_cmd": "instantiate the input and walrus's round-trip output, call export f with args, compare result and globals g0 / g1"})
            e = res(x["in"])
            if e is None:
                continue
            ncalls += 1
            ntraps += e == "CRTrap"
            if e == "CRTrap":
                trapk[x["in"]["r"][5:40]] = trapk.get(x["in"]["r"][5:40], 0) + 1
            calls.append("([%s]%%Z, %s, %s, %s, %s, %s)" % ("; ".join("(%s)" % a["v"] for a in c["calls"][x["k"]]), e, x["in"]["g0"][1:], x["in"]["g1"][1:], x["in"].get("memsum", "0"), x["in"].get("pages", "0")))
        lines.append("{| cc_tys := %s; cc_params := [%s]; cc_locals := [%s]; cc_results := [%s]; cc_g0 := (%s)%%Z; cc_g1 := (%s)%%Z; cc_pages := %s; cc_maxpages := %s; cc_body := %s; cc_calls := [%s] |}" % (
            c["tys"], "; ".join(c["params"]), "; ".join(c["locals"]), "; ".join(c["results"]), c["g0"], c["g1"], c.get("pages", 0), c.get("maxpages", 0), c["body"], "; ".join(calls)))
    head = "From Coq Require Import List NArith ZArith String. Import ListNotations.\nFrom WV Require Import Gen.Ops Model.Common Model.IR Model.ParseSpec Run.SemCoreRun.\nOpen Scope N_scope.\nDefinition cases : list corecase := [\n"
    per = 40
    for k in range(0, len(lines), per):
        body = ";\n".join("  " + l for l in lines[k:k + per])
        with open(os.path.join(out, "cases_core_%d.v" % (k // per)), "w") as f:
            f.write(head + body + "\n].\nEval vm_compute in (List.map check_core cases).\n")
        if k == 0:   # how many of these cases would a machine without label records get wrong? (discriminating power of the run)
            with open(os.path.join(out, "lax_core_0.v"), "w") as f:
                f.write(head + body + "\n].\nEval vm_compute in (List.map check_core_lax cases).\n")
    results, errors = core.coq_eval(out, "cases_core_*.v")
    dis = [{"file": f, "coq_error": m[-400:]} for f, m in errors.items()]
    names = {41: "result differs from V8", 42: "final globals differ from V8", 43: "interpreter stuck", 44: "result stack ill-typed or too short", 45: "out of fuel", 46: "final memory differs from V8", 47: "memory size differs from V8"}
    neval = 0
    for f, codes in results.items():
        neval += len(codes)
        for i, cd in enumerate(codes):
            if cd != 0:
                dis.append({"code": cd, "meaning": names.get(cd, "?"), "file": os.path.basename(f), "case_index": i})
    lax, _ = core.coq_eval(out, "lax_core_*.v")
    lax_diff = sum(1 for codes in lax.values() for cd in codes if cd != 0)
    cov = {"functions": len(lines), "calls_compared_with_v8": ncalls, "trapping_calls": ntraps, "evaluated_in_coq": neval,
           "of_the_first_%d_functions_a_machine_without_label_records_gets_wrong" % min(per, len(lines)): lax_diff,
           "generator": {k: idx.get(k) for k in ("operators", "loops", "branches", "dead_ops", "memory_ops", "walrus_failures")},
           "trap_kinds_seen_in_v8": trapk,
           "rule": "generated functions over the 98 operators Model/SemCore.v interprets (i32 / i64 arithmetic with wrap-around, signed and unsigned comparisons, shifts, rotations, clz / ctz / popcnt, signed and unsigned div / rem with their traps, wrap / extend / sign-extension, loads and stores of every width on one linear memory with bounds traps, memory.size / memory.grow, locals, globals, drop, select) inside block / loop / if / br / br_if / br_table / return / unreachable, with nops, dead code, counter-bounded REAL loops, multi-value block types and branches taken with surplus values above the label height; 3 argument vectors per function, a fresh instance per call; V8's result bit patterns, trap verdict, final globals, a checksum of the final memory and its size vs. the Coq interpreter (run_core, exact labels); input vs walrus's output compared as well"}
    return dis, ov, cov


def _run(a):
    d, i, w = a
    try:
        r = subprocess.run(["node", "--experimental-wasm-relaxed-simd", os.path.join(core.VERIF, "js", "run.mjs"), d, i, w], capture_output=True, text=True, timeout=30)
        if r.stdout.strip():
            return json.loads(r.stdout.strip().splitlines()[-1])
        return {"id": i, "which": w, "verdict": "crash", "err": r.stderr[-300:]}
    except subprocess.TimeoutExpired:
        return {"id": i, "which": w, "verdict": "timeout"}


def module_correspondence(ctx, thorough, search):
    """whole modules with calls: generated multi-function modules run by node (fresh instance per call; input and walrus's output) and by the Coq
    interpreter of Model/SemMod.v"""
    out = os.path.join(ctx.work, ("search" if search else "corr") + "_mod")
    shutil.rmtree(out, ignore_errors=True)
    n = 600 if thorough else 60
    rc, o, dt = core.sh([core.vh(), "c01mod", out, str(ctx.seed + (78 if search else 0)), str(n)], timeout=1200)
    if rc != 0:
        return [{"error": "module generator failed", "out": o[-600:]}], [], {}
    idx = json.load(open(os.path.join(out, "index.json")))
    r = subprocess.run(["node", os.path.join(core.VERIF, "js", "runmod.mjs"), out], capture_output=True, text=True, timeout=900)
    if r.returncode != 0 or not r.stdout.strip():
        return [{"error": "node failed on the module cases", "out": r.stderr[-600:]}], [], {}
    by = {}
    for x in json.loads(r.stdout)["results"]:
        by.setdefault(x["id"], []).append(x)

    def res(v):
        if v["r"].startswith("ok:"):
            body = v["r"][3:]
            return "CROk [%s]" % "; ".join(t[1:] for t in body.split(",")) if body else "CROk []"
        return "CRTrap" if v["r"].startswith("trap:") else None
    lines, ov, ncalls, trapk, skipped = [], [], 0, {}, 0
    for c in idx["cases"]:
        calls = []
        for x in sorted(by.get(c["id"], []), key=lambda q: q["k"]):
            call = c["calls"][x["k"]]
            if x["in"] != x["out"] and "exhaustion" not in (x["in"]["r"], x["out"]["r"]):
                ov.append({"class": "behaviour-differs", "what": "module %s, call %d (f%s): input `%s` / output `%s`" % (c["id"], x["k"], call["f"], json.dumps(x["in"]), json.dumps(x["out"])),
                           "input": {"module_hex": open(os.path.join(out, c["id"] + ".in.wasm"), "rb").read().hex(), "call": call},
                           "replay_cmd": "instantiate the input and walrus's round-trip output, call export f<k> with args, compare result, globals g0 / g1 and memory m"})
            e = res(x["in"])
            if e is None:
                skipped += 1
                continue
            ncalls += 1
            if e == "CRTrap":
                trapk[x["in"]["r"][5:45]] = trapk.get(x["in"]["r"][5:45], 0) + 1
            calls.append("(%s, [%s]%%Z, %s, %s, %s, %s, %s)" % (call["f"], "; ".join("(%s)" % a["v"] for a in call["args"]), e, x["in"]["g0"][1:], x["in"]["g1"][1:], x["in"]["memsum"], x["in"]["pages"]))
        lines.append("{| mc_tys := %s; mc_funcs := %s; mc_table := %s; mc_g0 := (%s)%%Z; mc_g1 := (%s)%%Z; mc_pages := 1; mc_maxpages := 3; mc_calls := [%s] |}" % (
            c["tys"], c["funcs"], c["table"], c["g0"], c["g1"], "; ".join(calls)))
    head = "From Coq Require Import List NArith ZArith String. Import ListNotations.\nFrom WV Require Import Gen.Ops Model.Common Model.IR Model.ParseSpec Run.SemCoreRun Run.SemModRun.\nOpen Scope N_scope.\nDefinition cases : list modcase := [\n"
    per = 12
    for k in range(0, len(lines), per):
        with open(os.path.join(out, "cases_modsem_%d.v" % (k // per)), "w") as f:
            f.write(head + ";\n".join("  " + l for l in lines[k:k + per]) + "\n].\nEval vm_compute in (List.map check_mod cases).\n")
    results, errors = core.coq_eval(out, "cases_modsem_*.v")
    dis = [{"file": f, "coq_error": m[-400:]} for f, m in errors.items()]
    names = {71: "result differs from V8", 72: "final globals differ from V8", 73: "final memory differs from V8", 74: "memory size differs from V8", 75: "the interpreter is stuck / went wrong", 76: "call depth or fuel exhausted"}
    neval = 0
    for f, codes in results.items():
        neval += len(codes)
        for i, cd in enumerate(codes):
            if cd != 0:
                dis.append({"code": cd, "meaning": names.get(cd, "?"), "file": os.path.basename(f), "case_index": i})
    cov = {"modules": len(lines), "calls_compared_with_v8": ncalls, "calls_skipped_stack_exhaustion": skipped, "evaluated_in_coq": neval, "trap_kinds_seen_in_v8": trapk,
           "generator": {k: idx.get(k) for k in ("operators", "call_sites", "functions", "failures")},
           "rule": "generated modules of 2-5 functions over the 98 core operators plus call (to lower-numbered functions, bounded self-recursion) and call_indirect (a table listing every function in a shuffled order with one empty slot; mostly matching signatures, sometimes a mismatch, the empty slot or the first index out of range), one memory, three globals; every function called with two argument vectors on a fresh instance; V8's result bit patterns, trap verdict, final globals, memory checksum and size vs. the Coq interpreter run_mod (call depth 64); input vs walrus's output compared as well"}
    return dis, ov, cov


def inst_correspondence(ctx, thorough, search):
    """instantiation: generated modules with global initialisers, active / passive / declared element and data segments (some out of bounds), a start
    function (sometimes trapping); node instantiates the input and walrus's output (half of them after the GC pass) and the Coq model of Model/Inst.v
    instantiates the same module: verdict, globals, memory, table, and calls after instantiation"""
    out = os.path.join(ctx.work, ("search" if search else "corr") + "_inst")
    shutil.rmtree(out, ignore_errors=True)
    n = 600 if thorough else 60
    rc, o, dt = core.sh([core.vh(), "c01inst", out, str(ctx.seed + (79 if search else 0)), str(n)], timeout=1200)
    if rc != 0:
        return [{"error": "instantiation generator failed", "out": o[-600:]}], [], {}
    idx = json.load(open(os.path.join(out, "index.json")))
    r = subprocess.run(["node", os.path.join(core.VERIF, "js", "runinst.mjs"), out], capture_output=True, text=True, timeout=1800)
    if r.returncode != 0 or not r.stdout.strip():
        return [{"error": "node failed on the instantiation cases", "out": r.stderr[-600:]}], [], {}
    by = {x["id"]: x for x in json.loads(r.stdout)["results"]}

    def res(v):
        if v["r"].startswith("ok:"):
            body = v["r"][3:]
            return "CROk [%s]" % "; ".join(t[1:] for t in body.split(",")) if body else "CROk []"
        return "CRTrap" if v["r"].startswith("trap:") else None
    lines, ids, ov, kinds, ncalls, skipped = [], [], [], {}, 0, 0
    for gv in idx.get("oracle_violations", []):
        ov.append({"class": gv["class"], "what": gv["what"], "input": {"module_hex": gv.get("input")}, "replay_cmd": "walrus::Module::from_buffer(<module_hex>), optionally passes::gc::run, emit_wasm; decode the output"})
    for c in idx["cases"]:
        x = by.get(c["id"])
        if x is None:
            continue
        exh = any("exhaustion" in (q["in"]["r"], q["out"]["r"]) for q in x["calls"]) or "RangeError" in (x["in"]["v"], x["out"]["v"])
        if not x["same"] and not exh:
            ov.append({"class": "behaviour-differs", "what": "module %s: instantiation of the input gives `%s`, of walrus's output `%s`; differing calls after instantiation: %s" % (
                           c["id"], json.dumps(x["in"])[:300], json.dumps(x["out"])[:300], json.dumps([q for q in x["calls"] if not q["same"]])[:400]),
                       "input": {"module_hex": open(os.path.join(out, c["id"] + ".in.wasm"), "rb").read().hex()},
                       "replay_cmd": "instantiate the input and walrus's output (import env.gi = the i32 the case names): compare the verdict, exported globals, memory m, table t and the calls"})
        o = x["in"]
        if o["v"] == "ok":
            kind = "ok"
        elif o["v"] == "RuntimeError":
            kind = "trap: " + re.sub(r"^WebAssembly.Instance\(\): ", "", o["msg"])[:40]
        else:
            kinds["skipped: " + o["v"]] = kinds.get("skipped: " + o["v"], 0) + 1
            continue
        kinds[kind] = kinds.get(kind, 0) + 1
        gidx = {g["name"]: g["index"] for g in c["gnames"]}
        if o["v"] == "ok":
            gobs = "; ".join("(%d, %s)" % (gidx[nm], v[1:]) for nm, v in o["globals"].items())
            tbl = "; ".join("None" if k == -1 else "Some %d" % k for k in o["table"])
            calls = []
            for q in x["calls"]:
                call = c["calls"][q["k"]]
                e = res(q["in"])
                if e is None:
                    skipped += 1
                    continue
                ncalls += 1
                calls.append("(%s, [%s]%%Z, %s, %s, %s, %s, %s)" % (call["f"], "; ".join("(%s)" % a["v"] for a in call["args"]), e, q["in"]["g0"][1:], q["in"]["g1"][1:], q["in"]["memsum"], q["in"]["pages"]))
            obs = "ic_ok := true; ic_gobs := [%s]; ic_memsum := %s; ic_pages := %s; ic_tbl := [%s]" % (gobs, o["memsum"], o["pages"], tbl)
        else:
            calls = []
            obs = "ic_ok := false; ic_gobs := []; ic_memsum := 0; ic_pages := 0; ic_tbl := []"
        lines.append("{| ic_tys := %s; ic_funcs := %s; ic_globals := %s; ic_mem := %s; ic_table := %s; ic_elems := %s; ic_datas := %s; ic_start := %s; %s; ic_g0 := %d; ic_g1 := %d; ic_calls := [%s] |}" % (
            c["tys"], c["funcs"], c["globals"], c["mem"], c["table"], c["elems"], c["datas"], c["start"], obs, c["g0idx"], c["g1idx"], "; ".join(calls)))
        ids.append(c["id"])
    head = "From Coq Require Import List NArith ZArith String. Import ListNotations.\nFrom WV Require Import Gen.Ops Model.Common Model.IR Model.ParseSpec Model.Inst Run.SemCoreRun Run.InstRun.\nOpen Scope N_scope.\nDefinition cases : list instcase := [\n"
    per = 12
    for k in range(0, len(lines), per):
        with open(os.path.join(out, "cases_inst_%d.v" % (k // per)), "w") as f:
            f.write(head + ";\n".join("  " + l for l in lines[k:k + per]) + "\n].\nEval vm_compute in (List.map check_inst cases).\n")
    results, errors = core.coq_eval(out, "cases_inst_*.v")
    dis = [{"file": f, "coq_error": m[-400:]} for f, m in errors.items()]
    names = {81: "instantiation verdict differs from V8", 82: "globals after instantiation differ from V8", 83: "memory after instantiation differs from V8", 84: "memory size differs from V8",
             85: "table contents differ from V8", 86: "the model went wrong", 87: "call depth or fuel exhausted", 71: "result of a call after instantiation differs from V8", 72: "globals after a call differ",
             73: "memory after a call differs", 74: "memory size after a call differs", 75: "the interpreter is stuck / went wrong in a call", 76: "call depth or fuel exhausted in a call"}
    neval = 0
    for f, codes in results.items():
        neval += len(codes)
        for i, cd in enumerate(codes):
            if cd != 0:
                dis.append({"code": cd, "meaning": names.get(cd, "?"), "file": os.path.basename(f), "case_index": i})
    cov = {"modules": len(lines), "evaluated_in_coq": neval, "verdicts_in_v8": kinds, "calls_after_instantiation_compared_with_v8": ncalls, "calls_skipped_stack_exhaustion": skipped,
           "generator": {k: v for k, v in idx.items() if k != "cases"},
           "rule": "generated modules of 2-5 functions over the core operators, every function exported, a table of 4-8 slots, one memory (1 page, max 3), mutable i32 / i64 globals, an immutable one and an imported i32 global used by global.get initialisers and segment offsets, 0-3 active element segments (offsets in and slightly out of range, overlapping, null entries), passive and declared segments, 0-3 active data segments (offsets around 65536), a start function in a third of the modules (writing memory / globals, sometimes trapping); half of the modules also go through walrus's GC pass; V8's instantiation verdict, exported globals, memory checksum and size, the function in every table slot, and calls after instantiation vs. Model/Inst.v `instantiate` followed by run_mod; the input and walrus's output are compared with each other as well"}
    return dis, ov, cov


def bulk_correspondence(ctx, thorough, search):
    """bulk-memory operators and passive data segments (Model/SemBulk.v): generated modules with memory.init / data.drop / memory.copy / memory.fill
    sequences; node instantiates the input and walrus's output (half after GC) and calls every export on a fresh instance; the Coq model is run (a) on
    the input module and (b) on walrus's OUTPUT BINARY decoded back by the harness (functions reordered, segments deleted and renumbered, operators renamed)"""
    out = os.path.join(ctx.work, ("search" if search else "corr") + "_bulk")
    shutil.rmtree(out, ignore_errors=True)
    n = 400 if thorough else 40
    rc, o, dt = core.sh([core.vh(), "c01bulk", out, str(ctx.seed + (80 if search else 0)), str(n)], timeout=1200)
    if rc != 0:
        return [{"error": "bulk generator failed", "out": o[-600:]}], [], {}
    idx = json.load(open(os.path.join(out, "index.json")))
    r = subprocess.run(["node", os.path.join(core.VERIF, "js", "runbulk.mjs"), out], capture_output=True, text=True, timeout=1800)
    if r.returncode != 0 or not r.stdout.strip():
        return [{"error": "node failed on the bulk-memory cases", "out": r.stderr[-600:]}], [], {}
    by = {x["id"]: x for x in json.loads(r.stdout)["results"]}

    def res(v):
        if v["r"].startswith("ok:"):
            body = v["r"][3:]
            return "CROk [%s]" % "; ".join(t[1:] for t in body.split(",")) if body else "CROk []"
        return "CRTrap" if v["r"].startswith("trap:") else None
    ov, kinds, ncalls, skipped = [], {}, 0, 0
    lines = {"in": [], "out": []}
    for gv in idx.get("oracle_violations", []):
        ov.append({"class": gv["class"], "what": gv["what"], "input": {"module_hex": gv.get("input")}, "replay_cmd": "walrus::Module::from_buffer(<module_hex>), optionally passes::gc::run, emit_wasm; decode the output"})
    for c in idx["cases"]:
        x = by.get(c["id"])
        if x is None:
            continue
        exh = any("exhaustion" in (q["in"]["r"], q["out"]["r"]) for q in x["calls"]) or "RangeError" in (x["in"]["v"], x["out"]["v"])
        if not x["same"] and not exh:
            ov.append({"class": "behaviour-differs", "what": "module %s (gc=%s): instantiation of the input gives `%s`, of walrus's output `%s`; differing calls: %s" % (
                           c["id"], c.get("gc"), json.dumps(x["in"])[:300], json.dumps(x["out"])[:300], json.dumps([q for q in x["calls"] if not q["same"]])[:400]),
                       "input": {"module_hex": open(os.path.join(out, c["id"] + ".in.wasm"), "rb").read().hex()},
                       "replay_cmd": "instantiate the input and walrus's output (import env.gi as the case says), call every export f<k> on fresh instances, compare results, globals, memory, table"})
        for mode in ("in", "out"):
            o = x[mode]
            if o["v"] == "ok":
                kind = "ok"
            elif o["v"] == "RuntimeError":
                kind = "trap: " + re.sub(r"^WebAssembly.Instance\(\): ", "", o["msg"])[:40]
            else:
                continue
            if mode == "in":
                kinds[kind] = kinds.get(kind, 0) + 1
                src, gidx, fmap, g0idx, g1idx = c, {g["name"]: g["index"] for g in c["gnames"]}, (lambda k: k), c["g0idx"], c["g1idx"]
                funcs, datas = c["funcs"], c["datas"]
            else:
                src = c.get("decoded_out")
                if src is None:
                    continue
                gidx = {g["name"]: g["index"] for g in src["gexp"]}
                fx = {g["name"]: g["index"] for g in src["fexp"]}
                fmap = (lambda k, fx=fx: fx["f%d" % int(k)])
                g0idx, g1idx = gidx["g0"], gidx["g1"]
                funcs, datas = src["funcs"], src["datas"]
            if o["v"] == "ok":
                gobs = "; ".join("(%d, %s)" % (gidx[nm], v[1:]) for nm, v in o["globals"].items())
                tbl = "; ".join("None" if k == -1 else "Some %d" % fmap(k) for k in o["table"])
                calls = []
                for q in x["calls"]:
                    call = c["calls"][q["k"]]
                    qo = q[mode]
                    e = res(qo)
                    if e is None:
                        skipped += 1
                        continue
                    ncalls += 1
                    calls.append("(%s, [%s]%%Z, %s, %s, %s, %s, %s)" % (fmap(call["f"]), "; ".join("(%s)" % a["v"] for a in call["args"]), e, qo["g0"][1:], qo["g1"][1:], qo["memsum"], qo["pages"]))
                obs = "bc_ok := true; bc_gobs := [%s]; bc_memsum := %s; bc_pages := %s; bc_tbl := [%s]" % (gobs, o["memsum"], o["pages"], tbl)
            else:
                calls = []
                obs = "bc_ok := false; bc_gobs := []; bc_memsum := 0; bc_pages := 0; bc_tbl := []"
            lines[mode].append("{| bc_tys := %s; bc_funcs := %s; bc_globals := %s; bc_mem := %s; bc_table := %s; bc_elems := %s; bc_datas := %s; bc_start := %s; %s; bc_g0 := %d; bc_g1 := %d; bc_calls := [%s] |}" % (
                src["tys"], funcs, src["globals"], src["mem"], src["table"], src["elems"], datas, src["start"], obs, g0idx, g1idx, "; ".join(calls)))
    head = "From Coq Require Import List NArith ZArith String. Import ListNotations.\nFrom WV Require Import Gen.Ops Model.Common Model.IR Model.ParseSpec Model.Inst Run.SemCoreRun Run.InstRun Run.BulkRun.\nOpen Scope N_scope.\nDefinition cases : list bulkcase := [\n"
    per = 10
    for mode in ("in", "out"):
        ls = lines[mode]
        for k in range(0, len(ls), per):
            with open(os.path.join(out, "cases_bulk%s_%d.v" % (mode, k // per)), "w") as f:
                f.write(head + ";\n".join("  " + l for l in ls[k:k + per]) + "\n].\nEval vm_compute in (List.map check_bulk cases).\n")
    results, errors = core.coq_eval(out, "cases_bulk*_*.v")
    dis = [{"file": f, "coq_error": m[-400:]} for f, m in errors.items()]
    names = {81: "instantiation verdict differs from V8", 82: "globals after instantiation differ from V8", 83: "memory after instantiation differs from V8", 84: "memory size differs from V8",
             85: "table contents differ from V8", 86: "the model went wrong", 87: "call depth or fuel exhausted", 71: "result of a call differs from V8", 72: "globals after a call differ",
             73: "memory after a call differs", 74: "memory size after a call differs", 75: "the interpreter is stuck / went wrong in a call", 76: "call depth or fuel exhausted in a call"}
    neval = 0
    for f, codes in results.items():
        neval += len(codes)
        for i, cd in enumerate(codes):
            if cd != 0:
                dis.append({"code": cd, "meaning": names.get(cd, "?"), "file": os.path.basename(f), "case_index": i})
    cov = {"modules_input_side": len(lines["in"]), "modules_decoded_from_walrus_output": len(lines["out"]), "evaluated_in_coq": neval, "verdicts_in_v8": kinds, "calls_compared_with_v8": ncalls,
           "calls_skipped_stack_exhaustion": skipped, "generator": {k: v for k, v in idx.items() if k != "cases"},
           "rule": "the modules of the instantiation tie plus 1-4 passive data segments interleaved with the active ones and bodies containing memory.init / data.drop / memory.copy / memory.fill with generated operands (in bounds, at the exact end, one past it, n = 0 at and past the boundary, overlapping copies in both directions, memory.init after data.drop and of active segments); half go through the GC pass (unused passive segments deleted, the others renumbered); V8 vs. Model/SemBulk.v `instantiate_b` / `run_mod_b` on the input AND on walrus's output binary decoded back by the harness"}
    return dis, ov, cov


def correspondence(ctx, thorough, search, prop="C01"):
    out = os.path.join(ctx.work, ("search" if search else "corr") + ("_" + prop if prop != "C01" else ""))
    shutil.rmtree(out, ignore_errors=True)
    n = 1500 if thorough else 60
    rc, o, dt = core.sh([core.vh(), "c01gen", out, str(ctx.seed + (101 if search else 0)), str(n)], timeout=2400)
    if rc != 0:
        return {"disagreements": [{"error": "harness failed", "out": o[-800:]}], "oracle_violations": [], "coverage": {}}
    idx = json.load(open(os.path.join(out, "index.json")))
    which = ("out",) if prop == "C01" else ("gc",)
    jobs = [(out, i, w) for i in idx["ids"] for w in which if os.path.exists(os.path.join(out, "%s.%s.wasm" % (i, w)))]
    with cf.ThreadPoolExecutor(16) as ex:
        res = list(ex.map(_run, jobs))
    ov = []
    tally = {}
    for r in res:
        tally[r["verdict"]] = tally.get(r["verdict"], 0) + 1
        if r["verdict"] == "differs":
            wasm = open(os.path.join(out, "%s.in.wasm" % r["id"]), "rb").read().hex()
            plan = json.load(open(os.path.join(out, "%s.plan.json" % r["id"])))
            cls = "behaviour-differs" if r["which"] == "out" else "behaviour-differs-after-gc"
            ov.append({"class": cls, "what": "%s: %s" % (r.get("name"), "; ".join(r["mismatches"])[:700]),
                       "input": {"module_hex": wasm, "calls": plan["calls"]},
                       "replay_cmd": "node js/run.mjs <dir> <id> %s   (dir produced by `vh c01gen`); or instantiate input and walrus's %s output with the same imports and perform `calls` in order" % (r["which"], "round-trip" if r["which"] == "out" else "gc+emit")})
        elif r["verdict"] == "crash":
            ov.append({"class": "executor-crashed", "what": "node could not run case %s/%s: %s" % (r["id"], r["which"], r.get("err", "")[:300]), "input": None})
    cov = {"evaluations": sum(r.get("calls", 0) for r in res), "distinct_nontrivial": len(res), "traces_validated_against_impl": len(res),
           "rule": "hand-written stateful modules (globals, memory, data, start, call_indirect through a table, a real loop, br_table, else-less if, dead code after return, div traps, host calls) + generated valid modules of the executable profile; every exported function whose signature JavaScript can express is called with boundary argument vectors, up to 40 calls per module in random order on ONE instance per binary (state carries over); compared per call: result or trap class and the host-call trace (a run is cut at the first call that exhausts the stack in either binary: the depth reached is implementation-defined); at the end: memory hash and size, exported globals, table size and null pattern",
           "input_distribution": {"modules": len(idx["ids"]), "executions": len(res), "verdicts": tally, "calls": sum(r.get("calls", 0) for r in res), "trapping_calls": sum(r.get("traps", 0) for r in res),
                                  "host_calls": sum(r.get("host_calls", 0) for r in res), "runs_cut_at_stack_exhaustion": sum(1 for r in res if r.get("cut_at_exhaustion", -1) >= 0), "signatures_not_expressible_in_js": idx.get("signatures_not_expressible_in_js")},
           "exhaustive": False}
    dis = []
    if prop == "C01":
        dis, ov2, cov2 = core_correspondence(ctx, thorough, search)
        ov += ov2
        cov["integer_core_vs_coq_interpreter"] = cov2
        cov["evaluations"] += cov2.get("calls_compared_with_v8", 0)
        cov["traces_validated_against_impl"] += cov2.get("evaluated_in_coq", 0)
        dis3, ov3, cov3 = module_correspondence(ctx, thorough, search)
        dis += dis3
        ov += ov3
        cov["modules_with_calls_vs_coq_interpreter"] = cov3
        cov["evaluations"] += cov3.get("calls_compared_with_v8", 0)
        cov["traces_validated_against_impl"] += cov3.get("evaluated_in_coq", 0)
        dis4, ov4, cov4 = inst_correspondence(ctx, thorough, search)
        dis += dis4
        ov += ov4
        cov["instantiation_vs_coq_model"] = cov4
        cov["evaluations"] += cov4.get("modules", 0) + cov4.get("calls_after_instantiation_compared_with_v8", 0)
        cov["traces_validated_against_impl"] += cov4.get("evaluated_in_coq", 0)
        dis5, ov5, cov5 = bulk_correspondence(ctx, thorough, search)
        dis += dis5
        ov += ov5
        cov["bulk_memory_vs_coq_model"] = cov5
        cov["evaluations"] += cov5.get("calls_compared_with_v8", 0)
        cov["traces_validated_against_impl"] += cov5.get("evaluated_in_coq", 0)
    return {"disagreements": dis, "oracle_violations": ov, "coverage": cov}
