"""C01: the parse->emit round trip preserves execution behaviour (with the GC variant: the behavioural half of C06)."""
import json, os, shutil, subprocess, concurrent.futures as cf
from .. import core

PROOF = "Props/C01.v"
RUN_FILES = []
CORR_NAME = "input and output binaries executed side by side by node's WebAssembly engine (an interpreter/compiler that does not link walrus)"
ASSUMPTIONS = [
    "Model/Sem.v is an abstract big-step semantics of structured operator forests, parametric in the semantics of the individual operators; the equivalence theorem assumes that an operator's semantics is invariant under the consistent renumbering of indices (the interface to the WebAssembly semantics) and that return/unreachable never fall through",
    "the normal form the theorem is about is tied to the code by C03 (emitted body = normal form of the parsed body) and to the bytes by flat_nf_rt",
    "execution is observed with V8 (node 20) on generated modules of the subset it can instantiate (one plain 32-bit memory; relaxed SIMD behind a flag; no multi-memory/memory64/shared memory); generated loops never branch back and tail calls are acyclic so that every call terminates; a real loop, br_table, call_indirect and state-carrying calls are covered by hand-written modules",
]
WHICH = ("out", "gc")


def _run(a):
    d, i, w = a
    try:
        r = subprocess.run(["node", "--experimental-wasm-relaxed-simd", os.path.join(core.VERIF, "js", "run.mjs"), d, i, w], capture_output=True, text=True, timeout=30)
        if r.stdout.strip():
            return json.loads(r.stdout.strip().splitlines()[-1])
        return {"id": i, "which": w, "verdict": "crash", "err": r.stderr[-300:]}
    except subprocess.TimeoutExpired:
        return {"id": i, "which": w, "verdict": "timeout"}


def correspondence(ctx, thorough, search, prop="C01"):
    out = os.path.join(ctx.work, ("search" if search else "corr") + ("_" + prop if prop != "C01" else ""))
    shutil.rmtree(out, ignore_errors=True)
    n = 1500 if thorough else 60
    rc, o, dt = core.sh([core.vh(), "c01gen", out, str(ctx.seed + (101 if search else 0)), str(n)], timeout=2400)
    if rc != 0:
        return {"disagreements": [{"error": "harness failed", "out": o[-800:]}], "oracle_violations": [], "coverage": {}}
    idx = json.load(open(os.path.join(out, "index.json")))
    which = ("out",) if prop == "C01" else ("gc",)
    jobs = [(out, i, w) for i in idx["ids"] for w in which if os.path.exists(os.path.join(out, "%s.%s.wasm" % (i, w)))]
    with cf.ThreadPoolExecutor(16) as ex:
        res = list(ex.map(_run, jobs))
    ov = []
    tally = {}
    for r in res:
        tally[r["verdict"]] = tally.get(r["verdict"], 0) + 1
        if r["verdict"] == "differs":
            wasm = open(os.path.join(out, "%s.in.wasm" % r["id"]), "rb").read().hex()
            plan = json.load(open(os.path.join(out, "%s.plan.json" % r["id"])))
            cls = "behaviour-differs" if r["which"] == "out" else "behaviour-differs-after-gc"
            ov.append({"class": cls, "what": "%s: %s" % (r.get("name"), "; ".join(r["mismatches"])[:700]),
                       "input": {"module_hex": wasm, "calls": plan["calls"]},
                       "replay_cmd": "node js/run.mjs <dir> <id> %s   (dir produced by `vh c01gen`); or instantiate input and walrus's %s output with the same imports and perform `calls` in order" % (r["which"], "round-trip" if r["which"] == "out" else "gc+emit")})
        elif r["verdict"] == "crash":
            ov.append({"class": "executor-crashed", "what": "node could not run case %s/%s: %s" % (r["id"], r["which"], r.get("err", "")[:300]), "input": None})
    cov = {"evaluations": sum(r.get("calls", 0) for r in res), "distinct_nontrivial": len(res), "traces_validated_against_impl": len(res),
           "rule": "hand-written stateful modules (globals, memory, data, start, call_indirect through a table, a real loop, br_table, else-less if, dead code after return, div traps, host calls) + generated valid modules of the executable profile; every exported function whose signature JavaScript can express is called with boundary argument vectors, up to 40 calls per module in random order on ONE instance per binary (state carries over); compared per call: result or trap class and the host-call trace (a run is cut at the first call that exhausts the stack in either binary: the depth reached is implementation-defined); at the end: memory hash and size, exported globals, table size and null pattern",
           "input_distribution": {"modules": len(idx["ids"]), "executions": len(res), "verdicts": tally, "calls": sum(r.get("calls", 0) for r in res), "trapping_calls": sum(r.get("traps", 0) for r in res),
                                  "host_calls": sum(r.get("host_calls", 0) for r in res), "runs_cut_at_stack_exhaustion": sum(1 for r in res if r.get("cut_at_exhaustion", -1) >= 0), "signatures_not_expressible_in_js": idx.get("signatures_not_expressible_in_js")},
           "exhaustive": False}
    return {"disagreements": [], "oracle_violations": ov, "coverage": cov}
