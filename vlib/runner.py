"""Generic per-property flow: gen -> builds -> proof -> correspondence -> oracle/search -> evidence."""
import importlib, json, os, sys, time
from . import core
from .core import log


def run_property(prop, tier, seed):
    mod = importlib.import_module("vlib.props." + prop.lower())
    ctx = core.Ctx(prop, tier, seed)
    assumptions = list(getattr(mod, "ASSUMPTIONS", []))
    broken = []          # names of the proof obligations / correspondences that no longer check

    h_ok, h_out, h_dt = core.stage_harness()
    if not h_ok:
        broken.append("harness does not build against the current source: " + h_out[-600:])
    gen_ok, gen_rep = core.stage_gen() if h_ok else (False, {"error": "harness not built"})
    if not gen_ok:
        broken.append("translator refused the current source: " + (gen_rep.get("refused") or gen_rep.get("error", ""))[-600:])

    # S1: model + evaluation entry points (must build even when a proof is broken)
    run_targets = [t.replace(".v", ".vo") for t in getattr(mod, "RUN_FILES", [])]
    m_ok, m_out, m_dt = core.coq_make(run_targets) if run_targets else (True, "", 0)
    if not m_ok:
        broken.append("model no longer type-checks against the regenerated tables: " + m_out[-600:])

    # S2: proof
    proof = core.stage_proof(mod.PROOF)
    if not proof["ok"]:
        broken.append("proof obligation(s) in %s no longer check (%s): %s" % (mod.PROOF, proof.get("broken_at", "?"), "; ".join(proof["failures"])))
    if tier == "thorough" and proof["ok"]:
        ok, out, dt = core.coqchk(mod.PROOF)
        proof["coqchk"] = {"ok": ok, "wall_s": round(dt, 1), "tail": out[-800:]}
        if not ok:
            broken.append("coqchk rejects " + mod.PROOF)

    # S3 + S4
    cov = {"gen_report": gen_rep}
    corr = {"cases": 0, "disagreements": [], "oracle_violations": []}
    if h_ok and m_ok:
        corr = mod.correspondence(ctx, thorough=(tier == "thorough"), search=False)
    cov.update(corr.get("coverage", {}))
    disagreements = corr.get("disagreements", [])
    oracle = corr.get("oracle_violations", [])
    if disagreements:
        broken.append("correspondence %s: model and implementation differ on %d case(s), first: %s" % (getattr(mod, "CORR_NAME", prop), len(disagreements), json.dumps(disagreements[0])[:600]))

    # search for a concrete failing input when something broke and no oracle violation was found yet
    if broken and not oracle and h_ok and hasattr(mod, "correspondence"):
        log("something no longer checks; searching for a concrete failing input")
        try:
            s = mod.correspondence(ctx, thorough=True, search=True)
            oracle = s.get("oracle_violations", [])
            cov["search"] = {"ran": True, "cases": s.get("coverage", {}).get("evaluations", 0)}
        except Exception as ex:   # the search must never mask the verdict
            cov["search"] = {"ran": True, "error": repr(ex)}

    known = core.known_for(prop)
    unlisted = []
    for v in oracle:
        k = next((f for f in known if f.get("class") == v.get("class")), None)
        if k is not None:
            msg = "%s [%s]" % (k.get("what", ""), k.get("class"))
            if msg not in ctx.known_hits:
                ctx.known_hits.append(msg)
        else:
            unlisted.append(v)
    if unlisted:
        # one VIOLATION line per distinct class, concrete replay
        seen = set()
        for v in unlisted:
            c = v.get("class", "unclassified")
            if c in seen:
                continue
            seen.add(c)
            path = core.write_replay(prop, "violation_%s.json" % "".join(ch if ch.isalnum() else "_" for ch in c)[:60],
                                     {"property": prop, "class": c, "what": v.get("what"), "input": v.get("input"), "observed": v.get("observed"),
                                      "expected": v.get("expected"), "replay_cmd": v.get("replay_cmd"), "broken_obligations": broken})
            print("# %s: %s" % (c, v.get("what")))
            ctx.violations.append(("", path))
    elif broken:
        path = core.write_replay(prop, "unchecked.json", {"property": prop, "no_longer_checks": broken,
                                 "note": "no concrete failing input was found by the search; the property is no longer shown to hold"})
        for b in broken:
            print("# no longer checks: " + b[:1000])
        ctx.violations.append(("no-failing-input-found", path))
    cov["model_impl_disagreements"] = len(disagreements)
    cov["oracle_violations_unlisted"] = len(unlisted)
    cov["known_findings_hit"] = ctx.known_hits
    return core.finish(ctx, proof, cov, assumptions)
