#!/usr/bin/env python3
"""Regenerates MANIFEST.json from the table below (kept in one place so it is always valid)."""
import json, os, sys
VERIF = os.path.dirname(os.path.dirname(os.path.abspath(__file__)))

CLAIMED = {
    "C17": dict(
        text="Coq theorems (induction over arbitrary operation histories) on an executable model of TombstoneArena/ArenaSet: ids handed out are next_id, next_id+1, ... (fresh, never recycled), an id denotes its item until that id is deleted, a deleted id is absent for ever, deletion touches no other id, iteration is exactly the live items in creation order, len counts them without underflow, and the type set returns the existing id for a present type / a fresh id after deletion. The model is tied to the code by replaying exhaustive-short and random histories on the nine real Module collections and comparing every step inside Coq (vm_compute).",
        design_ref="DESIGN.md section 5, C17",
        note="Trusted: Coq kernel + vm_compute; hand-written model Model/Arena.v tied by the per-step correspondence run; id_arena as append-only vector; HashMap as association list over Type's Eq. No axioms (Print Assumptions: closed under the global context).",
        technique="Coq proof: invariant by induction over fold of operations + refinement facts; model/code tie by differential replay evaluated in Coq"),
    "C03": dict(
        text="Coq theorem over tables REGENERATED from the Rust source on every run (one constructor per supported wasmparser operator, 517 today): for arbitrary parse-time and emit-time index maps, encode(decode o) is the same operator with bit-identical constants, alignment, offset, lane and shuffle immediates and every index immediate renamed by the composite renumbering of its own index space. A changed arm in append_instruction or visit_instr changes Gen/Ops.v and breaks the destruct proof on exactly that constructor. The tables are tied back to the real code by an enumerator that sends every operator the reference validator accepts (x boundary immediates, live and dead position) through real walrus and compares, inside Coq, with what the tables predict; an independent oracle checks that the operator came back unchanged. (Body structure / labels / locals are added by the ParseFn/EmitFn layers.)",
        design_ref="DESIGN.md section 5, C03; section 3.1 G1-G3",
        note="Trusted: Coq kernel + vm_compute; the Python translator (each generated arm is re-run against the real code per operator); operator identification by name between wasmparser and wasm-encoder; f32/f64 as bit patterns. Known finding excluded explicitly in the statement: memarg offset >= 2^32 (with refutation witness). No axioms.",
        technique="Coq proof by case analysis over translator-generated decode/encode tables + per-operator differential enumeration evaluated in Coq"),
    "C16": dict(
        text="Coq theorems on executable explicit-stack models of dfs_in_order and dfs_pre_order_mut: for every arena denoting a tree (any shape, any depth) the iterative in-order machine yields exactly the recursive in-order callback log (each instruction once in program order, sequence start/end events properly nested, each entity operand once); the mutable traversal terminates within |tree| pops, visits a permutation of the tree's sequences (each exactly once) and reports each entity operand once. The per-instruction callback shape (visited fields, skip_visit, default hook bodies of Visitor/VisitorMut) is regenerated from src/ir/mod.rs and crates/macro on every run, so a default hook that recurses makes the 'exactly once' lemma unprovable. The machines are tied to the code by comparing complete callback logs of recording visitors on every function of generated modules inside Coq; an independent oracle counts visits against the emitted binary.",
        design_ref="DESIGN.md section 5, C16; T-dfs",
        note="Trusted: Coq kernel + vm_compute; hand-written machine models tied by callback-log comparison; translator for the hook shapes. Partial: call-stack growth is a property of the Rust text (the model is iterative by construction); visitors that mutate the tree are outside the model. No axioms.",
        technique="Coq proof: explicit-stack machine = recursive specification by nested induction with arbitrary continuation; generated hook-shape constants; differential callback logs evaluated in Coq"),
    "C15": dict(
        text="Coq theorems on an executable model of FunctionBuilder/InstrSeqBuilder: every structured builder program (append, positional insert, nested block/loop/if_else and their *_at forms, in any insertion order) builds without panic an arena holding exactly the denoted tree with fresh pairwise-distinct sequence ids, and emitting it (explicit-stack traversal + Emit visitor models) yields exactly the in-order flattening of that tree: same instructions, same order, correct nesting, branch depth = number of enclosing sequences up to the target. The models are tied to the code by re-building every function of generated valid modules through the real builder API in random insertion orders (incl. dangling sequences attached later), comparing the IR and the emitted body inside Coq; an independent oracle requires the builder-made twin to emit the same operator stream as the parsed original.",
        design_ref="DESIGN.md section 5, C15; T-emit, T-dfs",
        note="Trusted: Coq kernel + vm_compute; hand-written builder/traversal/emitter models tied by differential replay; translator for encode tables. Theorems cover the structured (closure) fragment; hand-attached dangling sequences only by the correspondence run. No axioms.",
        technique="Coq proof: builder machine = denoted tree (invariant over arena extensions), composed with traversal and emitter theorems; differential replay through the real builder API evaluated in Coq"),
    "C12": dict(
        text="Coq theorems on executable models of Module::parse / emit_wasm / gc: the raw custom sections of the emitted stream are exactly the input's (names, payload bytes, multiplicity, relative order, wherever they were placed), GC does not touch them, emitting returns the module unchanged so a second emit yields the same sections. Tied to the code by replaying every (module, configuration) case - fixtures, attribute cross-product modules with customs at arbitrary places and tricky names, with and without GC - on the models inside Coq; an independent oracle checks emit, GC+emit and a second emit on the same Module.",
        design_ref="DESIGN.md section 5, C12",
        note="Trusted: Coq kernel + vm_compute; hand-written module-level models tied by differential replay; wasm-encoder/wasmparser for bytes. No axioms.",
        technique="Coq proof: invariant over the payload fold (parse) and section emitters + differential replay evaluated in Coq"),
    "C14": dict(
        text="Coq theorems on the module-level models: switching name (producers) generation off yields exactly the section list of the on-run minus the name (producers) section; the processed-by update records walrus exactly once, is idempotent (so any number of round trips) and preserves every other producers entry in order; the parse callback counter is 1 on every successful parse (it sits after every fallible step). Tied to the code by replaying (module, configuration) cases on the models in Coq; independent oracles compare section inventories/contents across switch settings, count the walrus entry over 3 round trips and count callback invocations on successful and failed parses.",
        design_ref="DESIGN.md section 5, C14",
        note="Trusted: as C12. DWARF carry-over is checked by the C10 harness (section inventory with/without generate_dwarf), not by a theorem. No axioms.",
        technique="Coq proof: section-emitter factorisation lemmas, idempotence of the producers update + differential replay evaluated in Coq"),
    "C08": dict(
        text="Coq theorems: emit returns the module unchanged and emitting again gives the identical result (repeatability, customs included); every hash-ordered source is followed by a sort on an injective key, so the output is independent of iteration order (used-locals set, names, function order); already-canonical inputs stay put under the sorts (the ordering half of the round-trip fixpoint). Tied to the code by the module-level replay; independent oracles emit three times on one Module and re-round-trip walrus's own output (byte equality).",
        design_ref="DESIGN.md section 5, C08",
        note="Partial: the full fixpoint theorem emit(parse(emit(parse w))) = emit(parse w) is not proved (only its ordering lemmas and normal-form idempotence facts); byte-level determinism below the abstract section stream is wasm-encoder's purity; cross-process determinism is exercised by the thorough tier. No axioms.",
        technique="Coq proof: emit-keeps-module + permutation-invariance of insertion sorts on injective keys; differential replay and repeated-emit oracle"),
    "C06": dict(
        text="Coq theorems on an executable model of passes::used (roots + worklist) and passes::gc over the module model, whose instruction edges are the callback log of the in-order traversal with the visited-reference table REGENERATED from src/ir/mod.rs: every entity reachable from an export, the start function, an active data segment, a retained element segment or a custom-section root is in the used set (completeness, any module, any graph shape), the used set is closed under 'refers to', only entities outside the used set are deleted, and exports / start / custom sections / configuration are untouched. Tied to the code by replaying (module, GC) cases on the models inside Coq and comparing the emitted section streams; independent oracles recompute reachability on the input binary with a separately written analysis, validate the output and compare exports.",
        design_ref="DESIGN.md section 5, C06",
        note="Partial: the behavioural half (same results/traps/host calls when executed) is implied only through 'nothing reachable is removed or altered' + the body round-trip theorems (C03); no execution semantics is modelled. Validity of the output after GC is observed, not proved; one recorded finding (ref.func whose only declarers are unreachable). Trusted: Coq kernel + vm_compute; hand-written GC model tied by differential replay; translator for visited_refs. No axioms.",
        technique="Coq proof: worklist = least closed set containing the roots (soundness/completeness by induction on fuel with a measure on unmarked entities); frame lemmas for gc; differential replay evaluated in Coq"),
    "C07": dict(
        text="Coq theorems on the same GC model: the used set is EXACTLY the set reachable from the roots (precision: nothing unreachable is kept, apart from the documented first-memory residue which the model reproduces), gc keeps exactly the used entities in every arena, and running it again keeps the same sets (idempotence). Tied to the code as C06; independent oracles compare the entity counts of the output with an independent reachability analysis of the input, require a second run to change nothing, and require the type section to hold exactly the types still used.",
        design_ref="DESIGN.md section 5, C07",
        note="Trusted: as C06. The root set (declared segments, active segments of imported tables, first-memory residue) follows the code, as the property allows. No axioms.",
        technique="Coq proof: used = reach (both inclusions), gc_keeps_exactly_used, idempotence of the kept sets; differential replay evaluated in Coq"),
    "C18": dict(
        text="Coq theorems on executable models of replace_imported_func / replace_exported_func (Model/Edit.v, over the module and builder models): replacing an import keeps the function id (hence every caller, table entry, export, start), turns its kind into Local with the same signature and the denoted body, deletes exactly the first import of that function and changes nothing else; replacing an export adds one function (next id, same signature, given body), leaves every existing function - the original included - untouched, retargets exactly the first export of it (name and kind kept) and changes nothing else; both are refused on functions that are not imported / not exported-and-local; the well-formedness premises are established by parsing, preserved by both edits, and shown necessary by refutation witnesses. Tied to the code by performing the edit on EVERY imported and exported function of fixtures and generated modules with real walrus and comparing the emitted section stream with the model's inside Coq; an independent oracle checks imports, exports, reference counts, signature and validity on the emitted binary.",
        design_ref="DESIGN.md section 5, C18",
        note="Partial: 'still emits valid wasm' is observed (validator) not proved; one recorded finding (retargeted export was the only declaration of a ref.func target). 'Runs the new body' is structural (same id / retargeted export), no execution semantics. Trusted: Coq kernel + vm_compute; hand-written Edit model tied by differential replay. No axioms.",
        technique="Coq proof: inversion lemma per edit exposing the exact new module + frame equations; differential replay of edits evaluated in Coq"),
    "C19": dict(
        text="Coq theorems on the module-level parse and emit models: after a successful parse every index->id vector is 0..n-1 against arenas without tombstones (so input index k denotes arena item k), and arena item k is the record built from the k-th definition of that index space in the input, imports first (types, tables, memories, imports proved per section); the final id->index maps handed to custom sections are number(ids) where ids is the order in which the emitted sections list the entities (imports in import order, then local functions in the emitter's sort order, live tables/memories/globals/segments in arena order, sorted de-duplicated types), a lookup succeeds exactly for listed ids and returns the position. Tied to the code by the module-level replay; an independent oracle captures both maps through on_parse / CustomSection::data (also after GC) and compares, per index space, the entity at each index of the independently decoded input and output binaries.",
        design_ref="DESIGN.md section 5, C19",
        note="Trusted: Coq kernel + vm_compute; hand-written ParseM/EmitM models tied by differential replay; attribute plumbing regenerated (Gen/Attrs.v). Locals (parse-time) are covered by the oracle and the body-level case data, not by a module-level theorem. No axioms.",
        technique="Coq proof: invariants over the payload fold (ids_consistent) and closed forms of the seven emit-time maps; differential replay + map capture evaluated against decoded binaries"),
    "C20": dict(
        text="Coq theorems decomposing 'no escalation' into every place a newer encoding could be introduced: block types keep their inline form (and small function types are de-escalated), every output operator is the image of an input operator under the regenerated codec (none invented; with C03: the same operator with renamed indices), no control operator is added except MVP else/end, branch immediates are unchanged, element segments keep kind and item encoding and a segment on emitted table index 0 uses the MVP form (the explicit form only for index <> 0), and the data-count section appears iff there is a data segment and (a passive segment or a local function that uses memory.init/data.drop). Tied to the code by the module-level replay with wasm-encoder's exact element-encoding rule; independent oracles validate input and output under every 'all but one proposal' set and several MVP+ sets, and compare element flag bytes and data-count presence directly.",
        design_ref="DESIGN.md section 5, C20",
        note="Partial: the validator (feature gating) itself is not modelled; its verdicts are observed per case. Multi-byte table/memory immediates are covered by C03's index renaming (same index) rather than a byte-length theorem. Trusted: Coq kernel + vm_compute; models tied by differential replay; wasmparser validator as oracle. No axioms.",
        technique="Coq proof: origin lemma for every output operator of the normal form, counting lemma for control operators, case analysis of the element/data-count emitters; differential replay + reduced-feature validation"),
    "C02": dict(
        text="Coq theorems on the module-level models for the 'never panics / no referenced entity without an emitted index' half: a successfully parsed module is referentially closed (every id a live entity mentions denotes a live entity of the right arena), the GC pass keeps it closed (a kept entity only refers to kept entities), and a closed module is emitted without any 'index not set' or dead-arena panic by every section emitter - immediately and after GC - given that each function body is emitted on the final maps (for bodies denoting a tree with well-scoped branches the Emit visitor provably does not panic); the name-section emitter is discharged; the single corner where GC breaks closedness (a ref.func OFFSET of an active segment, unreachable from any valid binary) is exhibited as a witness. Validity of the output is observed: every output of the module-level run (no pass / GC, all configurations), of the builder run (C15), of the edit run (C18) and of the code-transform run (C11: unchanged, GC, inserted instructions) is validated with wasmparser under walrus's feature set, and every panic is reported.",
        design_ref="DESIGN.md section 5, C02",
        note="Partial: acceptance by an independent validator is observed per case, not proved (no validator model). Two recorded findings, both 'undeclared function reference' (walrus never synthesises a declarative element segment): after GC when every declarer of a ref.func target is unreachable; after replace_exported_func when the retargeted export was the only declarer. DWARF emission is exercised by C10's harness. Trusted: Coq kernel + vm_compute; hand-written models tied by differential replay. No axioms.",
        technique="Coq proof: referential-closure invariant through the payload fold and through gc (from used_closed), per-emitter totality lemmas; differential replay + validation of every output"),
    "C04": dict(
        text="Coq theorems: (A) the attribute plumbing REGENERATED from src/module/{tables,memories,globals,imports}.rs round-trips every attribute of tables, memories and globals, imported and local (limits, shared, 64-bit flags, page size, element type, value type, mutability) - a field the code drops or replaces by a literal breaks the proof; (B) for an arbitrary accepted payload stream emitted without a pass, the table and memory sections are literally the input's, the import section lists the same (module, field, kind, full type) entries in the same order with function type indices renamed, globals keep type/mutability with initialisers renamed, exports keep names/kinds/order with renamed items, the start function is renamed, element segments keep count, order, mode, item form and length with targets/offsets/items renamed, and all section lengths equal the input's. Tied to the code by the module-level replay over the attribute cross-product generator; an independent oracle compares every non-code section of input and output decoded with wasmparser, modulo the renumbering captured through the public index maps.",
        design_ref="DESIGN.md section 5, C04",
        note="Partial: data segments (data-count pre-reservation path) and function signatures through type de-duplication are decided by the correspondence run and the structure oracle only, not yet by a module-level theorem. Trusted: Coq kernel + vm_compute; translator for Gen/Attrs.v; hand-written ParseM/EmitM tied by differential replay. No axioms.",
        technique="Coq proof: reflexivity over generated attribute functions; trace lemmas over the payload fold composed with closed forms of the emitters; differential replay + section-by-section oracle"),
    "C11": dict(
        text="Coq theorems on a model of the CodeTransform that ModuleFunctions::emit builds: every input location occurs in at most one pair; a pair (loc, k, pos) says that in the k-th emitted function the instruction with InstrLocId loc starts at byte pos, and - composed with the body round-trip theorem - that this instruction is the image of the input instruction at input offset loc (the only default-location entries are synthesized elses); instructions carrying the default location (everything inserted through the builder API) are in no pair; the function ranges are exactly the extents of the size-prefixed entries, contiguous from the first entry, sorted by id; code_section_start is where the contents of the code section start for every function count (LEB boundaries 128 / 16384 proved), and the pre-repair formula is refuted. Tied to the code by recording the real CodeTransform through CustomSection::apply_code_transform on fixtures and generated modules - unchanged, after GC, and after inserting marker instructions - and comparing inside Coq; an independent oracle re-derives every pair, range and the start from a wasmparser decode of input and output.",
        design_ref="DESIGN.md section 5, C11",
        note="Two genuine defects found by this check were repaired in walrus (else-less if end location; code_section_start off by one outside 128..16383 functions); see known_findings.json. Instruction byte lengths are wasm-encoder's: the model runs with unit lengths and offsets are translated to operator ordinals by the harness. Trusted: Coq kernel + vm_compute; hand-written CodeMap model tied by differential replay. No axioms.",
        technique="Coq proof: BTreeMap-insert invariants, prefix-sum characterisation of recorded positions, origin of normal-form tags, layout arithmetic with LEB lengths; differential replay of the recorded CodeTransform"),
}

PENDING_REASON = "check not yet built in this snapshot (construction in progress per DESIGN.md section 10); an executable Coq model is planned, so this is not a claim that the technique cannot apply"


def main():
    props = [json.loads(l)["id"] for l in open(os.path.join(VERIF, "properties.jsonl"))]
    checks = []
    for p in props:
        if p not in CLAIMED:
            continue
        c = CLAIMED[p]
        checks.append({
            "property_id": p,
            "quick_cmd": "bin/check %s --tier quick" % p,
            "thorough_cmd": "bin/check %s --tier thorough" % p,
            "evidence_file": "evidence/%s.json" % p,
            "replay_cmd_template": "bin/check %s --replay {path}" % p,
            "engine": "coq-model+correspondence",
            "level_claimed": {"category": "proof", "text": c["text"], "design_ref": c["design_ref"]},
            "level_note": c["note"],
            "technique": c["technique"],
        })
    man = {
        "version": 1,
        "setup_cmd": "bin/check setup",
        "hooks": {
            "guard": "walrus_verif",
            "enable": "RUSTFLAGS=\"--cfg walrus_verif\" (set by vlib/core.py when building /verif/harness, which path-depends on /repo)",
            "baseline_off_cmd": "cd /repo && cargo test --workspace --no-fail-fast --offline",
            "source_commits": ["c05ee2b", "5f29fc0"],
            "add_only": True,
        },
        "engines": [{
            "name": "coq-model+correspondence", "path": "bin/check",
            "serves_properties": sorted(CLAIMED),
            "kind_free_text": "Coq 8.16 development under coq/ (Gen = regenerated from /repo by translator/, Model = executable Gallina, Proofs, Props = property theorems) + Rust harness (harness/) that runs real walrus and prints cases evaluated inside Coq with vm_compute; python driver vlib/",
        }],
        "checks": checks,
        "notes": "See DESIGN.md. Every check regenerates coq/Gen from /repo, rebuilds the harness against /repo's working tree with --cfg walrus_verif, re-checks the property's Coq theorems (full .vo build, Print Assumptions allow-list, forbidden-token grep) and runs the model/implementation correspondence plus a model-independent oracle. known_findings.json lists genuine defects that are recorded rather than repaired.",
        "not_applicable": [{"property_id": p, "reason": PENDING_REASON} for p in props if p not in CLAIMED],
    }
    with open(os.path.join(VERIF, "MANIFEST.json"), "w") as f:
        json.dump(man, f, indent=1)


if __name__ == "__main__":
    main()
