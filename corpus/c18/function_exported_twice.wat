;; one function exported under two names (and called internally): replace_exported_func retargets only the first export
(module
  (func $f (export "first") (export "second") (result i32) i32.const 111)
  (func (export "caller") (result i32) call $f))
