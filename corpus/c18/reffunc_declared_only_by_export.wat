;; known finding (C18/C02): $f is declared for ref.func only through its export; replace_exported_func($f)
;; moves the export to the new function and the output no longer validates
(module
  (func $f (export "f"))
  (func (export "g") ref.func $f drop))
