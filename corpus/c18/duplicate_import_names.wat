;; two function imports share their (module, field) pair: replacing the SECOND must delete the second import
(module
  (import "env" "hook" (func $a (param i32) (result i32)))
  (import "env" "hook" (func $b (param i32) (result i32)))
  (func (export "call_a") (param i32) (result i32) local.get 0 call $a)
  (func (export "call_b") (param i32) (result i32) local.get 0 call $b))
