;; the exported function is also the start function and the target of a ref.func in a body; only its export declares it.
;; After replace_exported_func the original must still be declared (the start section declares nothing).
(module
  (table 1 funcref)
  (func $init (export "init") nop)
  (func (export "get") (result funcref) ref.func $init)
  (start $init))
