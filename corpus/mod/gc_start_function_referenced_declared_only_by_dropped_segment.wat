(module
  (table 1 funcref)
  (func $s)
  (func (export "f") (result funcref) ref.func $s)
  (start $s)
  (elem $unreferenced func $s))
