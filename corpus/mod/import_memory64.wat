;; fixed 4dcdad8 (C04): imported 64-bit memory with 64-bit limits, used by an active data segment
(module
  (import "env" "m" (memory i64 1 8589934593))
  (data (i64.const 3) "abc"))
