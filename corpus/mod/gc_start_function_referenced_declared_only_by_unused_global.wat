(module
  (func $s)
  (global $unused funcref (ref.func $s))
  (func (export "f") (result funcref) ref.func $s)
  (start $s))
