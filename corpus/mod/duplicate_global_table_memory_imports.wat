(module
  ;; the same (module, field) pair imported several times is legal: every entry is its own entity
  (import "env" "g" (global i32))
  (import "env" "g" (global i32))
  (import "env" "h" (global (mut i64)))
  (import "env" "h" (global (mut i64)))
  (import "env" "t" (table 1 funcref))
  (import "env" "t" (table 2 funcref))
  (func (export "second_g") (result i32) global.get 1)
  (func (export "second_h") (result i64) global.get 3)
  (func (export "second_t_size") (result i32) table.size 1)
  (global (export "copy_of_second_g") i32 (global.get 1)))
