;; unknown custom sections whose names merely contain or resemble the specially treated ones
(module
  (@custom "reloc..debug_info" "\01\02\03")
  (func)
  (@custom "x.debug_line" "ab")
  (@custom "names" "n")
  (@custom "my.producers" "p")
  (@custom "name " "q"))
