(module
  ;; an `if` in dead code nested inside the arm of a live `if` (with and without its own else), also through a block
  (func (export "a") (param i32) (result i32)
    local.get 0
    if (result i32)
      i32.const 1
      return
      i32.const 0
      if
        nop
      else
        nop
      end
      unreachable
    else
      i32.const 2
    end)
  (func (export "b") (param i32) (result i32)
    local.get 0
    if (result i32)
      i32.const 3
      br 0
      i32.const 0
      if
        i32.const 9
        drop
      end
      unreachable
    else
      i32.const 4
    end)
  (func (export "c") (param i32) (result i32)
    local.get 0
    if (result i32)
      block (result i32)
        i32.const 5
        br 0
        block
          i32.const 1
          if
            unreachable
          else
            nop
          end
        end
        unreachable
      end
    else
      i32.const 6
    end))
