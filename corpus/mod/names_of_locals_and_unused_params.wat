;; fixed c6d0db6 / 029d840 (C13): local names; names of parameters that are never referenced
(module $mod
  (func $f (export "f") (param $unused i32) (param $used i64) (result i64) (local $l f32) (local $never f64)
    local.get $used
    f32.const 1 local.set $l)
  (func $g (param $p externref)))
