;; blocks, loops and ifs whose single result is a reference type, in a module that also has function types () -> funcref and () -> externref:
;; the one-byte block type must stay (a type-index block type needs multi-value)
(module
  (type $to_funcref (func (result funcref)))
  (type $to_externref (func (result externref)))
  (table 2 funcref)
  (func $f (type $to_funcref) (block (result funcref) (ref.func $f)))
  (func $g (type $to_externref) (loop (result externref) (ref.null extern)))
  (func $h (param i32) (result funcref)
    (if (result funcref) (local.get 0) (then (ref.null func)) (else (ref.func $f))))
  (elem declare func $f)
  (export "f" (func $f)) (export "g" (func $g)) (export "h" (func $h)))
