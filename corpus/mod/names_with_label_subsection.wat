;; a named label puts a label subsection (id 3) in front of the type / table / memory / global / element / data name subsections
(module
  (type $sig (func (param i32) (result i32)))
  (table $tab 1 funcref)
  (memory $mem 1)
  (global $glob (mut i32) (i32.const 0))
  (elem $seg func $f)
  (data $dat "abc")
  (func $f (type $sig) (param $x i32) (result i32)
    (block $exit (loop $again (br_if $exit (local.get $x)) (br $again)))
    (local.get $x))
  (export "f" (func $f)))
