(module
  (import "env" "base" (global $base i64))
  (memory i64 1)
  (data (global.get $base) "abc")
  (export "mem" (memory 0)))
