;; known finding (C06/C02): the only thing that declares $f for `ref.func` is a passive element
;; segment that nothing uses; the GC pass removes the segment and the emitted module no longer
;; validates ("undeclared function reference").
(module
  (func $f)
  (func (export "g") ref.func $f drop)
  (elem func $f))
