;; fixed 0b9ac19 (C12/C08): custom sections must survive a second emit on the same Module
(module
  (@custom "first" (before type) "\01\02")
  (type (func))
  (@custom "" (after type) "")
  (func (type 0))
  (@custom "dup" "a")
  (@custom "dup" "a")
  (@custom ".debu" "zz")
  (@custom "nam" "yy"))
