(module
  (import "env" "base" (global $base i64))
  (table i64 4 funcref)
  (func $f)
  (elem (table 0) (offset global.get $base) func $f)
  (export "t" (table 0)))
