;; several used locals of the SAME type in two functions, used asymmetrically: the order in which they are numbered
;; must not depend on a hash-ordered set (re-emitting walrus's own output must give the same bytes)
(module
  (func $first (export "first") (result i32) (local i32 i32 i32)
    i32.const 10 local.set 0 i32.const 20 local.set 1 i32.const 30 local.set 2 local.get 0 local.get 1 i32.add local.get 2 i32.add)
  (func $second (export "second") (result i32) (local i32 i32)
    i32.const 7 local.set 0 i32.const 5 local.set 1 local.get 0 local.get 1 i32.sub)
  (func $third (export "third") (param i64) (result i64) (local i64 i64 f32 i64)
    local.get 0 local.set 2 i64.const 2 local.set 1 i64.const 9 local.set 4 local.get 1 local.get 2 i64.sub local.get 4 i64.mul))
