;; a partial name section: only the module name
(module $just_the_module_name (func (export "f")))
