(module
  ;; an untyped `select` on v128 operands is legal without the reference-types proposal; the typed form is not
  (func (export "pick") (param v128 v128 i32) (result v128)
    local.get 0
    local.get 1
    local.get 2
    select)
  (func (export "pick_i64") (param i64 i64 i32) (result i64)
    local.get 0
    local.get 1
    local.get 2
    select))
