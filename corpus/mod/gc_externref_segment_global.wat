;; fixed b01fe97 (C06): an externref expression segment whose items read an imported global that
;; nothing else references
(module
  (import "env" "a" (global $a externref))
  (import "env" "b" (global $b externref))
  (table $t (export "t") 4 externref)
  (elem (table $t) (i32.const 0) externref (global.get $a) (ref.null extern) (global.get $b)))
