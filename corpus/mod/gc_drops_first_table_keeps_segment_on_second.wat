;; after the GC pass the second table (arena id 1) is emitted at index 0: its active segment must use
;; the MVP encoding (the decision is about the EMITTED index, not the arena id)
(module
  (table $unused 1 funcref)
  (table $t (export "t") 2 funcref)
  (func $f)
  (elem (table $t) (i32.const 0) func $f))
