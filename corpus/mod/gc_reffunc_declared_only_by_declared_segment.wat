;; `ref.func $f` is legal only because a declarative element segment mentions $f: the GC pass must keep that segment
(module
  (func $f)
  (func (export "g") ref.func $f drop)
  (elem declare func $f))
