;; fixed finding: code_section_start was "first entry - 2", right only for 128..16383 function bodies
(module (func (export "f") (result i32) i32.const 7))
