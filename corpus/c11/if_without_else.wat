;; fixed finding (6e54bff): the `end` of an else-less `if` was paired with the offset of the synthesized `else`
(module (func (export "f") (param i32) (result i32)
  local.get 0
  if
    nop
    i32.const 1
    drop
  end
  i32.const 2))
