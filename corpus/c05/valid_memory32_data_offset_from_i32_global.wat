(module
  (import "env" "base" (global $base i32))
  (memory 1)
  (data (global.get $base) "abc")
  (export "mem" (memory 0)))
